"""Family "convert": property C06 (GFA1 <-> GFA2 conversion).

spec -> code: spec/MC_Convert.tla enumerates the cases (and checks the laws of
spec/Convert.tla on the specification itself); every case is a small GFA
document printed as text.  This module feeds each document to the real gfapy
(line level, whole graph, round trip), records *what was written* (abstracted
syntactically with project.abstract_text) and hands the log to
spec/TraceConvert.tla, which recomputes everything with Convert.tla and prints
the disagreements.  No verdict is computed here."""
import json, os, re, signal, sys, time, random
from multiprocessing import Pool as MPool
from concurrent.futures import ThreadPoolExecutor

from . import tlc, report, project
from .core import _load_gfapy, REPO

NCPU = tlc.NCPU

# --------------------------------------------------------------------------
# tiers

TIERS = {
    "quick": dict(lens=[3, 4], maxops=2, unnamed=3, rot=[0]),
    "thorough": dict(lens=[3, 4, 5, 6], maxops=3, unnamed=4, rot=[0, 1, 2]),
}
MC_CFG = "SPECIFICATION Spec\nCONSTRAINT Emit\nINVARIANT Laws\nCHECK_DEADLOCK FALSE\n"
TRACE_CFG = "SPECIFICATION Spec\nCHECK_DEADLOCK FALSE\n"
CASE_RE = re.compile(r'<<\s*"CASE",\s*"(\w+)",\s*"(gfa[12])",\s*"([^"]*)"\s*>>', re.S)


def enumerate_cases(tier, name="convert-mc"):
    """Run MC_Convert (one TLC process per first-segment length + one for the
    path/catalogue kinds).  Returns (cases, generated, distinct)."""
    t = TIERS[tier]
    wd = tlc.workdir(name)
    jobs = []
    for ln in t["lens"]:
        for kinds in (["L", "C"], ["E"]):
            jobs.append(dict(lens=t["lens"], shard=[ln], maxops=t["maxops"], unnamed=t["unnamed"],
                             kinds=kinds, rot=t["rot"]))
    jobs.append(dict(lens=t["lens"], shard=[t["lens"][0]], maxops=t["maxops"], unnamed=t["unnamed"],
                     kinds=["P", "O", "X"], rot=t["rot"]))
    jobs.append(dict(lens=t["lens"], shard=[t["lens"][0]], maxops=t["maxops"], unnamed=t["unnamed"],
                     kinds=["H"], rot=t["rot"]))
    jobs.append(dict(lens=t["lens"], shard=[t["lens"][0]], maxops=t["maxops"], unnamed=t["unnamed"],
                     kinds=["N"], rot=t["rot"]))
    jobs.append(dict(lens=t["lens"], shard=[t["lens"][0]], maxops=t["maxops"], unnamed=t["unnamed"],
                     kinds=["T"], rot=t["rot"]))

    def one(i_par):
        i, par = i_par
        d = os.path.join(wd, "s%d" % i)
        os.makedirs(d)
        pf = os.path.join(d, "par.json")
        with open(pf, "w") as f:
            json.dump(par, f)
        rc, out = tlc.run_tlc("MC_Convert", MC_CFG, d, env={"PARAM_FILE": pf}, workers=1, heap="3g")
        tlc.check_ok(rc, out, "MC_Convert %s" % par)     # includes INVARIANT Laws
        return out

    with ThreadPoolExecutor(max_workers=NCPU) as ex:
        outs = list(ex.map(one, enumerate(jobs)))
    cases = []
    gen = dist = 0
    for out in outs:
        st = tlc.stats(out)
        found = CASE_RE.findall(out)
        if st is None or st[1] != len(found):
            raise tlc.MachineryError("MC_Convert: %s states but %d printed cases" % (st, len(found)))
        gen += st[0]
        dist += st[1]
        cases += found
    cases = sorted(set(cases))      # path cases: several stored-form vectors can give the same document
    return [dict(id=i + 1, kind=k, ver=v, text=txt) for i, (k, v, txt) in enumerate(cases)], gen, dist


def doc_lines(text):
    return ["\t".join(l.split("|")) for l in text.split(";")]


# --------------------------------------------------------------------------
# syntactic abstraction of a written line (project.abstract_text + typed extras)

def abst(text, version):
    r = dict(project.abstract_text(text, version))
    r["slen"], r["seq"] = -1, ""
    rt = r["rt"]
    bad = False
    if rt == "S":
        if version == "gfa2":
            bad = len(r["f"]) != 2 or len(r["num"]) != 1
            if not bad:
                r["slen"], r["seq"] = r["num"][0], r["f"][1]
        else:
            bad = len(r["f"]) != 1
            if not bad:
                seq = r["f"][0]
                ln = None
                for t in r["tags"]:
                    if t.startswith("LN:i:"):
                        try:
                            ln = int(t[5:])
                        except ValueError:
                            ln = -2
                keep = [t for t in r["tags"] if not t.startswith("LN:")]
                r["tags"], r["tagn"] = keep, [t[:2] for t in keep]
                r["seq"] = seq
                r["slen"] = ln if ln is not None else (len(seq) if seq != "*" else -1)
    elif rt in ("L", "C"):
        bad = len(r["refs"]) != 2 or len(r["ovs"]) != 1
        if rt == "C" and not bad:
            try:
                r["num"] = [int(r["f"][0])]
            except ValueError:
                bad = True
    elif rt == "E":
        bad = len(r["refs"]) != 2 or len(r["ovs"]) != 1 or len(r["num"]) != 8 or len(r["f"]) != 5
    elif rt == "P":
        bad = len(r["refs"]) < 1 or len(r["f"]) != 1 or len(r["ovs"]) < 1
    elif rt == "O":
        bad = len(r["refs"]) < 1
    if bad:
        r["rt"] = "!" + rt
    return r


# --------------------------------------------------------------------------
# driving gfapy

class Timeout(BaseException):
    pass


def _alarm(signum, frame):
    raise Timeout()


def guard(fn):
    """-> (result class, value).  Everything escaping is classified."""
    signal.setitimer(signal.ITIMER_VIRTUAL, 5.0)
    try:
        return "ok", fn()
    except Timeout:
        return "FOREIGN", "timeout"
    except tlc.MachineryError:
        raise
    except BaseException as e:  # noqa
        return project.errclass(e), type(e).__name__ + ": " + str(e)[:200]
    finally:
        signal.setitimer(signal.ITIMER_VIRTUAL, 0)


def _name(x):
    return x if isinstance(x, str) else str(x.name)


def run_doc(ver, lines, live=None):
    """Everything gfapy does with one document.  Returns the raw log:
    texts only (lists of written lines) and result classes.
    live = None: every section works on a Gfa freshly parsed from the text;
    live = a Gfa object (histories): every section works on that object, whose
    document is `lines` according to the specification."""
    gfapy = _load_gfapy()
    signal.signal(signal.SIGVTALRM, _alarm)
    tv = "gfa2" if ver == "gfa1" else "gfa1"
    src = "\n".join(lines)
    to_s, to_o = "to_%s_s" % tv, "to_%s" % tv
    log = dict(ver=ver, inp=lines)

    def load_check(text, version):
        def f():
            g = gfapy.Gfa(text, vlevel=3, version=version)
            g.validate()
            return g
        return guard(f)

    def the_gfa():
        if live is not None:
            return "ok", live
        return guard(lambda: gfapy.Gfa(src, version=ver))

    res, val = load_check(src, ver)
    log["input"] = res if res == "ok" else res + " " + str(val)
    if res != "ok":
        return log

    # line level, in the order gfapy lists the lines
    ln = [[["skip", []], ["skip", []], ["skip", []]] for _ in lines]
    res, g = the_gfa()
    if res == "ok":
        index = {}
        for j, t in enumerate(lines):
            index.setdefault(t, j)
        first_of_group = {}          # a group written on several lines is one object: filed under its first line
        for j, t in enumerate(lines):
            f = t.split("\t")
            if f[0] in ("O", "U") and len(f) > 1:
                first_of_group.setdefault((f[0], f[1]), j)

        def where(o):
            j = index.get(project.safe_str(o))
            if j is None and o.record_type in ("O", "U"):
                j = first_of_group.get((o.record_type, str(o.get("name"))))
            return j
        objs = [(o, where(o)) for o in g.lines]
        for o, j in objs:
            if j is None or o.record_type in ("H", "#"):
                continue
            r, v = guard(getattr(o, to_s))
            ln[j][0] = [r, ([v] if v else []) if r == "ok" else []]
            r, v = guard(lambda: (lambda x: None if x is None else str(x))(getattr(o, to_o)()))
            ln[j][1] = [r, ([v] if v else []) if r == "ok" else []]
            if o.record_type in ("L", "C"):
                r, v = guard(lambda: "\t".join(["E", str(o.eid), str(o.sid1), str(o.sid2), str(o.beg1),
                                                str(o.end1), str(o.beg2), str(o.end2), str(o.alignment)]))
                ln[j][2] = [r, [v] if r == "ok" else []]
            elif o.record_type == "E":
                def view():
                    head = [_name(o.from_segment), str(o.from_orient), _name(o.to_segment), str(o.to_orient)]
                    ov = str(o.overlap)
                    try:
                        pos = o.pos
                    except gfapy.Error:
                        return "\t".join(["L"] + head + [ov])
                    return "\t".join(["C"] + head + [str(pos).rstrip("$"), ov])   # pos may be a LastPos object
                r, v = guard(view)
                ln[j][2] = [r, [v] if r == "ok" else []]
    log["ln"] = ln

    # whole graph, text
    res, g = the_gfa()
    gs = ["skip", [], "skip"]
    bk = ["skip", [], "skip"]
    if res == "ok":
        r, s = guard(getattr(g, to_s))
        if r != "ok":
            gs = [r, [], "skip"]
        else:
            outs = [x for x in s.split("\n") if x]
            lr, g2 = load_check(s, tv)
            gs = [r, outs, lr]
            if lr == "ok":
                back_s = "to_%s_s" % ver
                r2, b = guard(getattr(g2, back_s))
                if r2 != "ok":
                    bk = [r2, [], "skip"]
                else:
                    bk = [r2, [x for x in b.split("\n") if x], load_check(b, ver)[0]]
    log["gs"], log["bk"] = gs, bk

    # whole graph, object
    res, g = the_gfa()
    go = ["skip", [], "skip"]
    if res == "ok":
        r, g2 = guard(getattr(g, to_o))
        if r != "ok":
            go = [r, [], "skip"]
        else:
            r3, s = guard(lambda: str(g2))
            if r3 != "ok":
                go = [r3, [], "skip"]
            else:
                lr, _ = guard(g2.validate)
                if lr == "ok":
                    lr = load_check(s, tv)[0]
                go = [r, [x for x in s.split("\n") if x], lr]
    log["go"] = go
    return log


STAGE = 10_000_000       # log id of stage n of history case c: c + n * STAGE


def apply_cmd(g, cmd):
    """One edit of the live Gfa object, as the history says: op~target~value."""
    op, target, value = cmd.split("~", 2)
    if op == "LN":
        g.segment(target).set("LN", int(value))
    elif op == "seq":
        g.segment(target).sequence = value
    elif op == "slen":
        g.segment(target).slen = int(value)
    elif op == "pos":
        g.line(target).pos = int(value)
    elif op == "ov":
        g.line(target).overlap = value
    elif op == "aln":
        g.line(target).alignment = value
    elif op == "tag":
        n, t, v = value.split(":", 2)
        g.line(target).set(n, int(v) if t == "i" else v)
    elif op == "rename":
        g.segment(target).name = value
    elif op == "readd":
        g.line(target).disconnect()
        g.add_line("\t".join(value.split("|")))
    else:
        raise tlc.MachineryError("unknown edit " + cmd)


def run_history(case):
    """doc0 @ cmd1 @ doc1 @ ...: one Gfa object, observed at every stage like a document."""
    gfapy = _load_gfapy()
    signal.signal(signal.SIGVTALRM, _alarm)
    parts = case["text"].split("@")
    docs, cmds = parts[0::2], parts[1::2]
    ver = case["ver"]
    logs = []
    res, g = guard(lambda: gfapy.Gfa("\n".join(doc_lines(docs[0])), version=ver))
    for n, d in enumerate(docs):
        lines = doc_lines(d)
        if res != "ok":
            log = dict(ver=ver, inp=lines, input="edit or load refused: %s %s" % (res, g))
        else:
            log = run_doc(ver, lines, live=g)
        log["id"], log["kind"], log["stage"] = case["id"] + n * STAGE, case["kind"], n
        logs.append(log)
        if res == "ok" and n < len(cmds):
            live = g
            res, val = guard(lambda: apply_cmd(live, cmds[n]))
            if res != "ok":
                g = "%s: %s" % (cmds[n], val)
    return logs


def run_case(case):
    """-> list of logs (one; for a history one per stage)"""
    if "@" in case["text"]:
        return run_history(case)
    log = run_doc(case["ver"], doc_lines(case["text"]))
    log["id"], log["kind"] = case["id"], case["kind"]
    return [log]


def run_cases(cases):
    if len(cases) < 40 or NCPU == 1:
        return [l for c in cases for l in run_case(c)]
    with MPool(processes=NCPU) as mp:
        return [l for ls in mp.map(run_case, cases, chunksize=max(1, len(cases) // (NCPU * 16) + 1)) for l in ls]


# --------------------------------------------------------------------------
# log -> typed JSON for TraceConvert

def encode(log, pool):
    ver = log["ver"]
    tv = "gfa2" if ver == "gfa1" else "gfa1"

    def P(texts, version):
        return [pool.add(abst(t, version)) for t in texts]

    acc_ver = tv   # the accessor view is written as a line of the other version
    return {"id": log["id"], "ver": ver, "inp": P(log["inp"], ver),
            "ln": [[[a[0], P(a[1], tv)], [b[0], P(b[1], tv)], [c[0], P(c[1], acc_ver)]] for a, b, c in log["ln"]],
            "gs": [log["gs"][0], P(log["gs"][1], tv), log["gs"][2]],
            "go": [log["go"][0], P(log["go"][1], tv), log["go"][2]],
            "bk": [log["bk"][0], P(log["bk"][1], ver), log["bk"][2]]}


def validate(logs, name):
    """Run TraceConvert over the logs.  Returns {case id: [(api, clause), ...]}."""
    logs = [l for l in logs if l["input"] == "ok"]
    if not logs:
        return {}, 0
    wd = tlc.workdir(name + "-shards")
    n = max(1, min(NCPU, len(logs) // 200 + 1))
    files = []
    for s in range(n):
        part = logs[s::n]
        pool = project.Pool()
        enc = [encode(l, pool) for l in part]
        f = os.path.join(wd, "shard%d.json" % s)
        with open(f, "w") as fh:
            json.dump({"pool": pool.items, "cases": enc}, fh)
        files.append(f)
    res = tlc.run_sharded("TraceConvert", TRACE_CFG, files, name + "-tlc")
    rejects = {}
    distinct = 0
    for rc, out in res:
        st = tlc.stats(out)
        if rc != 0 or st is None or "No error has been found" not in out:
            raise tlc.MachineryError("TraceConvert failed:\n" + "\n".join(out.splitlines()[-30:]))
        distinct += st[1]
        for raw in tlc.parse_tuples(out, "REJECT"):
            v = tlc.tla_value(raw)
            rejects[v[1]] = sorted((a, c) for a, c in v[2])
    if distinct != len(logs):
        raise tlc.MachineryError("TraceConvert consumed %d states, expected %d" % (distinct, len(logs)))
    return rejects, distinct


# --------------------------------------------------------------------------
# the check

def nontrivial(case):
    """rule: the document has an alignment with an insertion or deletion, or a `-`
    orientation, or a path, or a record without counterpart."""
    t = case["text"]
    return bool(re.search(r"\d[ID]", t)) or "-|" in t or "-;" in t or ";P|" in t or ";O|" in t or case["kind"] == "X"


def focus_rt(case):
    """record type the case is about (last line of the enumerated document)"""
    if case["kind"] in ("H", "N"):      # documents about the path, wherever its line stands
        return "P" if case["ver"] == "gfa1" else "O"
    if case["kind"] == "T":             # histories: the edge (first line after the segments)
        return [l for l in case["text"].split("@")[0].split(";") if l[0] != "S"][0].split("|")[0]
    return case["text"].split(";")[-1].split("|")[0] if case["kind"] != "X" else "X"


def example_rank(text):
    """which rejected document represents a group: prefer two distinct segments and a CIGAR
    with a match operation, then the shortest text (presentation only)"""
    last = text.split(";")[-1]
    edge = [l for l in text.split(";") if l[0] in "LCE"]
    return (0 if text.count(";S|") >= 1 else 1, 0 if all(re.search(r"\dM", e) for e in edge) else 1,
            len(text), text)


CLAUSE_ORDER = ["C06.alignment", "C06.interval", "C06.pos", "C06.pair", "C06.path", "C06.invalid-output",
                "C06.refused", "C06.mistranslated", "C06.name", "C06.tags", "C06.segment", "C06.header",
                "C06.count", "C06.roundtrip", "foreign"]
API_CLASS = {"line": "convert", "line_s": "convert", "gfa": "convert", "gfa_s": "convert",
             "accessors": "accessors", "roundtrip": "roundtrip"}


def group_violations(cases, rejects):
    """One violation per (source version, record type, clause, API class), with the smallest
    rejected document as its replayable example."""
    by_id = {c["id"]: c for c in cases}
    groups = {}
    outside = 0
    for cid, pairs in rejects.items():
        c = by_id[cid % STAGE]
        stage = cid // STAGE
        if ("input", "outside") in pairs:
            outside += 1
            continue
        for api, clause in pairs:
            # stage > 0 of a history: the same object converted again after an edit
            key = (c["ver"], focus_rt(c), clause, API_CLASS.get(api, api) + ("-after-edit" if stage else ""))
            g = groups.setdefault(key, dict(n=0, apis=set(), ex=None))
            g["n"] += 1
            g["apis"].add(api)
            if g["ex"] is None or example_rank(c["text"]) < example_rank(g["ex"]["text"]):
                g["ex"] = c

    def order(item):
        (ver, rt, clause, ac), g = item
        return (not ac.startswith("convert"), CLAUSE_ORDER.index(clause) if clause in CLAUSE_ORDER else 99, ver, rt, ac)

    viols = []
    for (ver, rt, clause, ac), g in sorted(groups.items(), key=order):
        c = g["ex"]
        viols.append(dict(family="convert", clauses=[clause], api="+".join(sorted(g["apis"])),
                          input="\n".join(doc_lines(c["text"].split("@")[0])), version=ver, record=rt,
                          occurrences=g["n"], case=c["text"],
                          what="%s %s record%s: clause %s rejected on %d enumerated documents (APIs %s); smallest: %s"
                               % (ver, rt, " (same Gfa object converted again after an edit)" if ac.endswith("-after-edit")
                                  else "", clause, g["n"], ",".join(sorted(g["apis"])), c["text"])))
    return viols, outside


def check_c06(out, tier, seed):
    t0 = time.time()
    cases, gen, dist = enumerate_cases(tier)
    t1 = time.time()
    logs = run_cases(cases)
    t2 = time.time()
    refused = [l for l in logs if l["input"] != "ok"]
    rejects, states = validate(logs, "convert-val")
    t3 = time.time()
    viols, outside = group_violations(cases, rejects)
    foreign = [v for v in viols if v["clauses"] == ["foreign"]]
    out.violations += [v for v in viols if v["clauses"] != ["foreign"]]
    if foreign:
        out.others["C07"] = sum(v["occurrences"] for v in foreign)
    kinds = {}
    for c in cases:
        kinds[c["kind"]] = kinds.get(c["kind"], 0) + 1
    rnd = random.Random(seed)
    out.samples += [c["text"] for c in rnd.sample(cases, min(5, len(cases)))]
    p = TIERS[tier]
    out.add_cov(evaluations=len(logs) - len(refused),
                distinct_nontrivial=sum(1 for c in cases if nontrivial(c)),
                rule="document contains an insertion/deletion CIGAR, a '-' orientation, a path, or a record "
                     "without counterpart",
                exhaustive=True,
                bounds="segment lengths %s; all 4 orientation pairs; distinct segments and self edges; CIGARs = all "
                       "sequences of <= %d operations over {M,I,D} x {1,2} that fit; containments at every offset "
                       "with a CIGAR spanning the contained segment; E lines = every pair of valid intervals x "
                       "('*' + every enumerated CIGAR spanning them), named (and unnamed up to length %d); "
                       "%d path shapes (single/linear/circular/revisiting/self-loop/hairpin) x stored form "
                       "(direct/complement/alternating) x named x overlaps-given x %d CIGAR rotations; hairpin "
                       "documents: link A+A-/A-A+ x (a)symmetric CIGARs x 1-2 paths stating the overlap as written/"
                       "as complement/not x P lines after/before/around the L lines x alone/inside X+..X- x named, "
                       "and the E line in its 4 forms x traversal +/-/implied x O before/after E; nested groups: "
                       "chain A-B-C-D x stored forms x inner group over 5 segment ranges written on 1-3 lines (cut at "
                       "every item) x outer group walking it forwards/backwards x optional third level x outer line "
                       "before/between/after the inner lines x O before/after E x edges listed/implied; histories on "
                       "one Gfa object (convert, edit, convert, edit, convert): L/C/E documents x edits {segment "
                       "length by LN/sequence/slen to 3 and 6, containment pos/overlap, alignment, tag, rename, edge "
                       "or path re-added in another form} x 1-2 edits; 9 catalogue "
                       "documents (tags, header, F/G/U/custom, trace, integer-like names, path through a containment-class edge)"
                       % (p["lens"], p["maxops"], p["unnamed"], 36, len(p["rot"])),
                cases_by_kind=kinds, spec_states=dist, spec_laws_checked=dist, trace_states=states,
                rejected_cases=len(rejects) - outside, inputs_refused_by_gfapy=len(refused),
                history_stages_after_an_edit=sum(1 for l in logs if l.get("stage")),
                outside_quantifier=outside,
                t_enumerate=round(t1 - t0, 1), t_gfapy=round(t2 - t1, 1), t_validate=round(t3 - t2, 1))
    if refused:
        out.samples.append("input refused by gfapy: " + refused[0]["inp"][-1] + " -> " + refused[0]["input"])
    out.assumptions += [
        "TLC and the TLA+ semantics of spec/Convert.tla, MC_Convert.tla, TraceConvert.tla, EdgeClass.tla, Cigar.tla",
        "harness/project.py abstract_text + fam_convert.abst: syntactic abstraction of written lines",
        "E alignment: sid1 is the reference, read along the oriented sequences; L/C overlap: from/container is "
        "the reference (DESIGN C06 (a)); `$` exactly at the end (b); containment pos on either strand of a "
        "reversed container as long as both directions agree (c)",
        "E lines whose CIGAR does not span their intervals, GFA1 '*' overlaps and segments without length are "
        "outside the quantifier; a GFA2 document with '*'/trace alignments has no way back (round trip not required)",
        "O groups: lines with the same identifier are one group (items concatenated in line order), an item naming "
        "another O group stands for that group's walk (backwards and inverted for `-`); gaps inside O lines and "
        "groups starting/ending with an edge are not enumerated",
        "histories: the document after an edit is the one MC_Convert writes for the edit (the command is issued on "
        "the live object by the harness); every stage is judged like a freshly given document",
        "foreign exceptions are attributed to C07 (other_property_rejections)",
    ]


PROPS = {"C06": (check_c06, "exploration")}


# --------------------------------------------------------------------------
# replay / selftest

def judge_texts(docs, name):
    """docs: list of (ver, text-with-|-and-;).  Returns list of sorted (api, clause) lists."""
    cases = [dict(id=i + 1, kind="R", ver=v, text=t) for i, (v, t) in enumerate(docs)]
    logs = [l for c in cases for l in run_case(c)]
    rej, _ = validate(logs, name)
    return logs, [rej.get(l["id"], []) for l in logs]


def replay(prop, v, path):
    text = v.get("case") or ";".join("|".join(l.split("\t")) for l in v["input"].split("\n"))
    logs, res = judge_texts([(v["version"], text)], "convert-replay")
    cmds = text.split("@")[1::2]
    hit = False
    for n, (log, rj) in enumerate(zip(logs, res)):
        if n:
            print("--- edit of the same Gfa object: %s; document now:" % cmds[n - 1])
        else:
            print("input (%s):" % v["version"])
        for l in log["inp"]:
            print("   ", l)
        if log["input"] != "ok":
            print("input refused:", log["input"])
            return 2
        for k, lab in (("gs", "whole graph, text"), ("go", "whole graph, object"), ("bk", "converted back")):
            print("%s: %s, target loads at vlevel 3: %s" % (lab, log[k][0], log[k][2]))
            for l in log[k][1]:
                print("   ", l)
        for j, e in enumerate(log["ln"]):
            print("line %d: to_s=%s %s | to=%s %s | view=%s %s" % (j + 1, e[0][0], e[0][1], e[1][0], e[1][1], e[2][0], e[2][1]))
        print("REJECT", rj)
        hit = hit or any(c in v["clauses"] for _, c in rj)
    if hit:
        print("VIOLATION property=%s replay=%s" % (prop, path))
        return 1
    print("replay passes")
    return 0


def selftest():
    """Binding: corrupt what was recorded from gfapy and require TraceConvert to reject it
    with the expected clause (and to accept the uncorrupted log for that clause)."""
    docs = [("gfa1", "S|A|ACGTAC;S|B|*|LN:i:5;L|A|+|B|-|2M1D1M|ID:Z:l1"),
            ("gfa1", "S|A|ACGTAC;S|B|*|LN:i:3;C|A|+|B|+|2|2M1I|ID:Z:c1"),
            ("gfa2", "S|A|6|ACGTAC;S|B|5|*;E|e1|A+|B+|3|6$|0|3|3M"),   # pure match: right on the pinned tree too
            ("gfa1", "S|A|ACGT;L|A|+|A|-|2M1I|ID:Z:hp;P|p|A+,A-|1D2M"),    # hairpin read as complement
            ("gfa2", "S|A|4|ACGT;E|hp|A+|A-|2|4$|1|4$|2M1I;O|p|A+ hp- A-"),
            # a nested group whose second line arrives after the group which lists it
            ("gfa2", "S|A|4|ACGT;S|B|5|*;S|C|6|*;S|D|6|*;E|e1|A+|B+|2|4$|0|3|2M1I;E|e2|B+|C-|2|5$|4|6$|1M1D1M;"
                     "E|e3|C-|D+|0|2|0|2|2M;O|inner|B+ C-;O|outer|A+ inner+;O|inner|D+"),
            # a history: stage 0, LN of A set to 6 on the same object, stage 1
            ("gfa1", "S|A|*|LN:i:5;S|B|*|LN:i:4;L|A|+|B|+|2M1I|ID:Z:l1@LN~A~6@"
                     "S|A|*|LN:i:6;S|B|*|LN:i:4;L|A|+|B|+|2M1I|ID:Z:l1")]
    cases = [dict(id=i + 1, kind="T", ver=v, text=t) for i, (v, t) in enumerate(docs)]
    base = [l for c in cases for l in run_case(c)]      # the history gives two logs: base[6], base[7]

    def edit(log, api, fn):
        l = json.loads(json.dumps(log))
        l[api][1] = [fn(x) for x in l[api][1]]
        return l

    def fld(line, i, fn):
        f = line.split("\t")
        if f[0] in ("E", "C", "L"):
            f[i] = fn(f[i])
        return "\t".join(f)

    muts = [
        (0, "drop $", "C06.interval", lambda x: fld(x, 5, lambda p: p.rstrip("$")) if x.startswith("E") else x),
        (0, "complement CIGAR", "C06.alignment", lambda x: fld(x, 8, lambda p: "1M1I2M") if x.startswith("E") else x),
        (0, "shift position", "C06.interval", lambda x: fld(x, 4, lambda p: str(int(p) + 1)) if x.startswith("E") else x),
        (0, "swap orientation", "C06.pair", lambda x: fld(x, 3, lambda p: "B+") if x.startswith("E") else x),
        (1, "drop $ of contained", "C06.interval", lambda x: fld(x, 7, lambda p: p.rstrip("$")) if x.startswith("E") else x),
        (1, "shift container interval", "C06.interval", lambda x: fld(x, 4, lambda p: "1") if x.startswith("E") else x),
        (0, "change segment length", "C06.segment", lambda x: x.replace("S\tA\t6\t", "S\tA\t7\t")),
        (0, "invent a tag", "C06.tags", lambda x: x + "\tqq:i:1" if x.startswith("E") else x),
        (0, "rename the edge", "C06.name", lambda x: fld(x, 1, lambda p: "zz") if x.startswith("E") else x),
        (2, "change CIGAR", "C06.alignment", lambda x: fld(x, 5, lambda p: "2M1I1M") if x.startswith("L") else x),
        (2, "swap from/to", "C06.pair", lambda x: "\t".join([x.split("\t")[0], "B", "+", "A", "+"] + x.split("\t")[5:]) if x.startswith("L") else x),
    ]
    muts = [m + ("gs", "gfa_s") for m in muts] + [
        # reading direction of a hairpin: the traversal sign / the overlap that comes back
        (3, "flip hairpin traversal", "C06.path", lambda x: x.replace("hp-", "hp+") if x.startswith("O") else x,
         "gs", "gfa_s"),
        (3, "overlap back as complement", "C06.roundtrip",
         lambda x: x.replace("1D2M", "2M1I") if x.startswith("P") else x, "bk", "roundtrip"),
        (4, "read hairpin other way", "C06.path", lambda x: x.replace("1D2M", "2M1I") if x.startswith("P") else x,
         "gs", "gfa_s"),
        (4, "traversal back flipped", "C06.roundtrip", lambda x: x.replace("hp-", "hp+") if x.startswith("O") else x,
         "bk", "roundtrip"),
        # nested group: the path of the outer group stops where the first line of the inner group stopped
        (5, "nested path truncated", "C06.path",
         lambda x: "P\touter\tA+,B+,C-\t2M1I,1M1D1M" if x.startswith("P\touter") else x, "gs", "gfa_s"),
        # history: after LN of A became 6 the E line still has the intervals of length 5
        (7, "stale length after edit", "C06.interval",
         lambda x: x.replace("\t4\t6$\t", "\t3\t5$\t") if x.startswith("E") else x, "gs", "gfa_s"),
    ]
    logs = list(base)
    for n, (ci, what, clause, fn, key, api) in enumerate(muts):
        l = edit(base[ci], key, fn)
        l["id"] = 100 + n
        logs.append(l)
    rej, _ = validate(logs, "convert-selftest")
    ok = True
    for n, (ci, what, clause, fn, key, api) in enumerate(muts):
        before = (api, clause) in rej.get(base[ci]["id"], [])
        after = (api, clause) in rej.get(100 + n, [])
        good = after and not before
        print("selftest convert: %-26s on doc %d -> %s %s" % (what, ci + 1, clause, "rejected" if good else
                                                               "NOT DISTINGUISHED (before=%s after=%s)" % (before, after)))
        ok = ok and good
    assert ok, "TraceConvert did not reject a corrupted log"
    return 0
