"""Registry of checks: property id -> function(out, tier, seed)."""
from . import core


def _core(out, tier, seed, prop, quick_mc, thorough_mc, quick_rand, thorough_rand):
    mc = quick_mc if tier == "quick" else thorough_mc
    nr, depth = quick_rand if tier == "quick" else thorough_rand
    jobs = {}
    for cat in ("gfa1", "gfa2"):
        jobs["rand-" + cat] = core.random_jobs(cat, nr, depth, seed)
        jobs["doc-" + cat] = core.doc_jobs(cat, nr, max(3, depth // 2), seed + 1)
    core.run_pipeline(out, jobs, mc, prop)
    out.assumptions += [
        "TLC 1.8 and the TLA+ semantics of spec/Gfa.tla, TraceGfa.tla",
        "harness/project.py: syntactic abstraction of written lines and of object references",
        "behaviour outside the catalogues / depth bound is not covered",
        "orphan placeholders (removal while a mentioned identifier is undefined) are outside the claim",
    ]


QUICK_MC = [("gfa1s", 3), ("gfa2s", 3)]
THOROUGH_MC = [("gfa1s", 4), ("gfa2s", 4), ("gfa1", 3), ("gfa2", 3)]


def make_core(prop):
    def f(out, tier, seed):
        _core(out, tier, seed, prop, QUICK_MC, THOROUGH_MC, (150, 10), (3000, 14))
    return f


LEVEL = {}
CHECKS = {}
for p in ("C02", "C05", "C08", "C09", "C16"):
    CHECKS[p] = make_core(p)
    LEVEL[p] = "model_checking"

# family modules: harness/fam_*.py, each defines PROPS = {"Cxx": (function(out, tier, seed), level)}
import glob, importlib, os
for _f in sorted(glob.glob(os.path.join(os.path.dirname(__file__), "fam_*.py"))):
    _m = importlib.import_module("harness." + os.path.basename(_f)[:-3])
    for _p, (_fn, _lvl) in getattr(_m, "PROPS", {}).items():
        CHECKS[_p] = _fn
        LEVEL[_p] = _lvl
