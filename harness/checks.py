"""Registry of checks: property id -> function(out, tier, seed)."""
import json
from . import core


def _core(out, tier, seed, prop, quick_mc, thorough_mc, quick_rand, thorough_rand):
    mc = quick_mc if tier == "quick" else thorough_mc
    nr, depth = quick_rand if tier == "quick" else thorough_rand
    jobs = {}
    for cat in ("gfa1", "gfa2"):
        jobs["rand-" + cat] = core.random_jobs(cat, nr, depth, seed)
        jobs["doc-" + cat] = core.doc_jobs(cat, nr, max(3, depth // 2), seed + 1)
        # random graphs with names and values outside the catalogues
        jobs["fuzz-" + cat] = core.fuzz_jobs(max(40, nr // 2), seed + 11, cat)
        # renames on the small catalogues (multi-line groups listed by other groups are frequent there)
        for small in (("gfa1s", "perml", "permp") if cat == "gfa1" else ("gfa2s", "permg")):
            jobs["renall-" + small] = core.rename_jobs(small, max(40, nr // 3), seed + 55, kind="renall" + small)
        # the identifier catalogues (collisions between record types, ID tags)
        idc = "ids1" if cat == "gfa1" else "ids2"
        jobs["doc-" + idc] = core.doc_jobs(idc, max(40, nr // 3), 5, seed + 81, kind="doc" + idc)
        # equal lines without identifier are separate lines
        jobs["dup-" + cat] = core.dup_jobs(cat, seed + 61)
        # every identified line of a document renamed in turn
        jobs["renall-" + cat] = core.rename_jobs(cat, max(40, nr // 3), seed + 51)
        # a clone added under another identifier, then tag edits on both lines (AddClone)
        jobs["clone-" + cat] = core.clone_jobs(cat, max(60, nr // 2), 5, seed + 41)
        # chained edits of positional fields of connected lines, then removals (SetField)
        jobs["edit-" + cat] = core.edit_jobs(cat, nr, max(5, depth // 2 + 2), seed + 21)
        jobs["edit-%s-v3" % cat] = core.edit_jobs(cat, max(20, nr // 5), 6, seed + 22, vlevel=3, kind="editv3")
        jobs["edit-%s-v0" % cat] = core.edit_jobs(cat, max(20, nr // 5), 6, seed + 23, vlevel=0, kind="editv0")
        # the other validation levels (C18: the level never changes the result on valid input)
        for vl in (0, 2, 3):
            jobs["doc-%s-v%d" % (cat, vl)] = core.doc_jobs(cat, max(20, nr // 5), max(3, depth // 2), seed + 2 + vl,
                                                         vlevel=vl, kind="docv%d" % vl)
    if prop == "C09":
        for cat in ("ids1", "ids2", "gfa1", "gfa2"):
            jobs["renall2-" + cat] = core.rename_jobs(cat, nr // 2, seed + 52, kind="renall2")
        # conversions that name the unnamed edges of the source, then additions / renames / lookups
        jobs["conv-doc"] = core.doc_jobs("conv1", nr, 6, seed + 53, kind="convdoc")
        jobs["conv-ren"] = core.rename_jobs("conv1", nr // 2, seed + 54, kind="convren")
    if prop == "C08":
        # header histories at every level (header lines and header.add() with valid and invalid values)
        for cat in ("gfa1", "gfa2"):
            for vl in (1, 2, 3):
                jobs["hdr-%s-%d" % (cat, vl)] = core.hdr_jobs(cat, max(30, nr // 4), seed + 70 + vl, vlevel=vl)
    if prop == "C08":
        # level 3 refuses more (invalid values): a larger share of histories at that level
        for cat in ("gfa1", "gfa2"):
            jobs["doc-%s-v3x" % cat] = core.doc_jobs(cat, nr, max(4, depth // 2 + 1), seed + 31, vlevel=3, kind="docv3x")
        # every second history also compares the answers of read-only query groups across refused calls
        for name, js in jobs.items():
            for i, j in enumerate(js):
                if i % 2 == 0:
                    j["probe"] = ["collections", "finders", "fields", "str", "neighbourhood"]
    core.run_pipeline(out, jobs, mc, prop)
    if prop in ("C02", "C05"):
        # second layer: the object-graph mechanism (placeholders, substitution, cascade one step at a
        # time) refines the document specification and keeps the graph closed and symmetric
        ok, st, inv = core.mc_impl(5 if tier == "quick" else 7 if prop == "C02" else 6, True, "impl-" + prop)
        if not ok:
            raise core.MachineryError("GfaImpl does not refine Gfa: invariant %s" % inv)
        out.add_cov(states=st[1], transitions=st[0], impl_layer_states=st[1])
    out.assumptions += [
        "TLC 1.8 and the TLA+ semantics of spec/Gfa.tla, TraceGfa.tla",
        "harness/project.py: syntactic abstraction of written lines and of object references",
        "behaviour outside the catalogues / depth bound is not covered",
        "orphan placeholders (removal while a mentioned identifier is undefined) are outside the claim",
    ]


QUICK_MC = [("gfa1s", 3), ("gfa2s", 3), ("ids2", 2), ("ids1", 2)]
THOROUGH_MC = [("gfa1s", 4), ("gfa2s", 4), ("gfa1", 3), ("gfa2", 3), ("ids1", 3), ("ids2", 3)]


def make_core(prop):
    def f(out, tier, seed):
        _core(out, tier, seed, prop, QUICK_MC, THOROUGH_MC, (150, 10), (3000, 14))
    return f


LEVEL = {}
CHECKS = {}
for p in ("C02", "C05"):
    CHECKS[p] = make_core(p)
    LEVEL[p] = "model_checking"


def check_c08(out, tier, seed):
    """core histories plus the version-queue catalogue with clashing identifiers"""
    mc = QUICK_MC + [("kfq", 3)] if tier == "quick" else THOROUGH_MC + [("kfq", 4)]
    _core(out, tier, seed, "C08", mc, mc, (150, 10), (3000, 14))


CHECKS["C08"] = check_c08
LEVEL["C08"] = "model_checking"


def check_c16(out, tier, seed):
    """core histories plus the topology catalogues (trees, cycles, self-links, hairpins, parallel,
    containment-only and internal-only relations, isolated segments) with the clean-up operations
    remove_small_components / remove_self_links as specified actions"""
    mc = [("topo1", 3), ("topo2", 3), ("gfa1s", 3)] if tier == "quick" else \
        [("topo1", 4), ("topo2", 4), ("gfa1s", 4), ("gfa2s", 4)]
    from . import core as c
    jobs = {}
    nr = 150 if tier == "quick" else 3000
    for cat in ("topo1", "topo2", "gfa1", "gfa2"):
        jobs["doc-" + cat] = c.doc_jobs(cat, nr, 4, seed)
        # edges taken out, edited (intervals / orientations / ends) and added again; edits of connected lines
        jobs["edit-" + cat] = c.edit_jobs(cat, nr, 7, seed + 5, complete=True)
    # whole documents (every segment defined in the end) in shuffled arrival orders: groups, edges and
    # fragments before the segments they mention
    import random as _r
    rr = _r.Random(seed + 9)
    for cat in ("topo1", "topo2"):
        lines = [c.text_of(l) for l in c.CATALOGUES[cat]["lines"]]
        js = []
        for i in range(60 if tier == "quick" else 1500):
            od = list(lines)
            rr.shuffle(od)
            js.append(dict(id="shuf-%s-%d" % (cat, i), kind="shuf", cfg=dict(version=c.CATALOGUES[cat]["version"], vlevel=1),
                           ops=[dict(k="add", text=t, id="", id2="") for t in od] +
                               [dict(k="rm", text="", id=rr.choice(c.CATALOGUES[cat]["ids"]), id2="")],
                           universe=c.universe_of(c.CATALOGUES[cat])))
        jobs["shuf-" + cat] = js
    c.run_pipeline(out, jobs, mc, "C16")
    out.assumptions += ["TLC; Components/N* operators of spec/Gfa.tla", "harness/project.py"]


CHECKS["C16"] = check_c16
LEVEL["C16"] = "model_checking"


def check_c09(out, tier, seed):
    """core histories plus the identifier catalogues (collisions across record types,
    integer-looking names, renames, unused_name())"""
    mc = [("gfa1s", 3), ("gfa2s", 3), ("ids1", 3), ("ids2", 3)] if tier == "quick" else \
        [("gfa1s", 4), ("gfa2s", 4), ("gfa1", 3), ("gfa2", 3), ("ids1", 4), ("ids2", 4)]
    _core(out, tier, seed, "C09", mc, mc, (150, 10), (3000, 14))


CHECKS["C09"] = check_c09
LEVEL["C09"] = "model_checking"

# family modules: harness/fam_*.py, each defines PROPS = {"Cxx": (function(out, tier, seed), level)}
import glob, importlib, os
for _f in sorted(glob.glob(os.path.join(os.path.dirname(__file__), "fam_*.py"))):
    _m = importlib.import_module("harness." + os.path.basename(_f)[:-3])
    for _p, (_fn, _lvl) in getattr(_m, "PROPS", {}).items():
        CHECKS[_p] = _fn
        LEVEL[_p] = _lvl


def check_c03(out, tier, seed):
    import random
    from . import core as c
    rnd = random.Random(seed)
    plan = [("perm1", 3, 4, "none", None), ("perm2", 3, 4, "none", None),
            ("permg", 3, 5, "none", None), ("perml", 3, 5, "none", None), ("permp", 3, 5, "none", None),
            ("permh", 7, 7, "none", 1300)] if tier == "quick" else \
           [("perm1", 3, 6, "none", 60000), ("perm2", 3, 5, "none", None),
            ("perm1", 3, 5, "gfa1", 30000), ("perm2", 3, 4, "gfa2", None),
            ("permg", 3, 7, "none", 60000), ("perml", 3, 7, "none", 60000), ("permp", 3, 7, "none", 60000),
            ("permh", 7, 7, "none", None)]
    jobs = []
    sp_states = sp_trans = 0
    ndocs = 0
    for cat, lo, hi, ver, cap in plan:
        seqs, ops, st = c.mc_arrival(cat, lo, hi, "arr-%s-%s" % (cat, ver), cfgversion=ver)
        sp_trans += st[0]
        sp_states += st[1]
        if cap and len(seqs) > cap and len({tuple(sorted(k)) for k in seqs}) == 1:
            # one large document: a seeded sample of its arrival orders
            seqs = dict(rnd.sample(sorted(seqs.items()), cap))
        if cap and len(seqs) > cap:     # keep whole documents: sample documents, not orders
            docs = sorted({tuple(sorted(k)) for k in seqs})
            rnd.shuffle(docs)
            keep, n = set(), 0
            for d in docs:
                import math
                n += math.factorial(len(d))
                keep.add(d)
                if n >= cap:
                    break
            seqs = {k: v for k, v in seqs.items() if tuple(sorted(k)) in keep}
        ndocs += len({tuple(sorted(k)) for k in seqs})
        jobs += c.perm_jobs(seqs, ops, cat, cfgversion=ver)
    if tier == "quick":    # a few larger documents, every order
        seqs, ops, st = c.mc_arrival("perm1", 5, 5, "arr-perm1-5", cfgversion="none")
        sp_trans += st[0]
        sp_states += st[1]
        docs = sorted({tuple(sorted(k)) for k in seqs})
        rnd.shuffle(docs)
        keep = set(docs[:12])
        seqs = {k: v for k, v in seqs.items() if tuple(sorted(k)) in keep}
        ndocs += len(keep)
        jobs += c.perm_jobs(seqs, ops, "perm1", cfgversion="none", tag="5")
    r = c.replay_validate(jobs, "val-C03")
    traces = list(r["by_id"].values())
    prej, ngroups = c.validate_perm_groups(traces, jobs, "perm-C03")
    by_id = r["by_id"]
    for tid, ev, clauses, phase in r["rejects"] + prej:
        t = by_id.get(tid)
        props = c.attribute(clauses, "perm") if clauses != ["order"] else {"C03"}
        if "C03" in props:
            out.violations.append(dict(family="core", clauses=clauses, event=ev, phase=phase, trace=tid,
                                       cfg=t["cfg"], ops=t["src"][:ev] if ev else t["src"],
                                       what="clauses %s at delivery %d" % (",".join(clauses), ev)))
        for p in props - {"C03"}:
            out.others[p] = out.others.get(p, 0) + 1
    out.add_cov(states=sp_states + r["states"], transitions=sp_trans + r["states"],
                spec_states=sp_states, spec_transitions=sp_trans,
                traces_validated_against_impl=len(traces), events_validated=r["states"],
                documents=ndocs, strict_documents_compared_by_digest=ngroups,
                evaluations=len(traces), distinct_nontrivial=len(traces),
                exhaustive=False,
                rule="every arrival order of every valid document (subset of the perm1/perm2 catalogues "
                     "within the size bounds, validity decided by MC_Arrival!ValidDoc) delivered with add_line, "
                     "observed after every delivery; each order is a distinct non-trivial case (>= 3 lines, "
                     ">= 1 referencing record is guaranteed only by the catalogue mix)")
    for t in traces[:3]:
        out.samples.append({"trace": t["id"], "cfg": t["cfg"], "calls": [[o["k"], o["text"], e["res"]]
                                                                     for o, e in zip(t["src"], t["ev"])]})
    out.assumptions += ["TLC; spec/Gfa.tla, MC_Arrival.tla, TraceGfa.tla, TracePerm.tla", "harness/project.py",
                        "permutations are compared modulo the relative order of the lines of one multi-line group (C17)"]


CHECKS["C03"] = check_c03
LEVEL["C03"] = "model_checking"


def check_c11(out, tier, seed):
    """E-line cell table (exhaustive for segment length 3) in three arrival orders, after a
    rename and after removing an unrelated line; L/C/G shapes; plus the core histories."""
    from . import core as c, tlc
    wd = tlc.workdir("cells")
    cfg = ("SPECIFICATION Spec\nCONSTANT SLen = 3\nCONSTRAINT Emit\nINVARIANT SwapSym\nINVARIANT InvSym\n"
           "INVARIANT Shape\nINVARIANT KindAgrees\nCHECK_DEADLOCK FALSE\n")
    rc, o = tlc.run_tlc("MC_EdgeCells", cfg, wd, workers=4)
    tlc.check_ok(rc, o, "MC_EdgeCells")
    st = tlc.stats(o)
    cells = sorted({json.dumps(tlc.tla_value(r)) for r in tlc.parse_tuples(o, "CELL")})
    cells = [json.loads(x) for x in cells]
    if len(cells) != 400:
        raise tlc.MachineryError("expected 400 cells, got %d" % len(cells))

    def p(v, last):
        return "%d%s" % (v, "$" if last else "")
    jobs = []
    A = lambda t: dict(k="add", text=t, id="", id2="")
    uni = ["a", "b", "c", "d", "e"]
    n = 0
    for cell in cells:
        _, o1, o2, num, t, k1, k2 = cell
        for second in ("b", "a"):
            e = "E\te\ta%s\t%s%s\t%s\t%s\t%s\t%s\t*" % (o1, second, o2, p(num[0], num[1]), p(num[2], num[3]),
                                                       p(num[4], num[5]), p(num[6], num[7]))
            sa, sb, sc = "S\ta\t3\t*", "S\tb\t3\t*", "S\tc\t3\t*"
            segs = [sa, sb] if second == "b" else [sa]
            tail = [dict(k="ren", text="", id="a", id2="d"), A(sc), dict(k="rm", text="", id="c", id2=""),
                    dict(k="rm", text="", id="e", id2="")]
            if n % 2 == 0:
                # a segment of the edge is removed instead: the edge (of whatever kind) goes with it
                tail = tail[:3] + [dict(k="rm", text="", id=("b" if second == "b" else "d"), id2="")] + tail[3:]
            orders = [segs + [e], [e] + segs, [segs[0], e] + segs[1:]]
            if tier == "quick" and (n % 3):
                orders = orders[n % 3: n % 3 + 1]     # quick: every cell, one of the orders each (rotating)
            for od in orders:
                jobs.append(dict(id="cell-%d" % n, kind="cell", cfg=dict(version="gfa2", vlevel=1),
                                 ops=[A(x) for x in od] + tail, universe=uni))
                n += 1
            if second == "b" or tier != "quick":
                # the same line object is taken out, given the intervals (and orientations) of another
                # cell while outside the Gfa, and added again: it is filed by what it says now
                oc = cells[(cells.index(cell) * 7 + 3) % len(cells)]
                e2 = "E\te\ta%s\t%s%s\t%s\t%s\t%s\t%s\t*" % (oc[1], second, oc[2], p(oc[3][0], oc[3][1]), p(oc[3][2], oc[3][3]),
                                                               p(oc[3][4], oc[3][5]), p(oc[3][6], oc[3][7]))
                jobs.append(dict(id="cellre-%d" % n, kind="cell", cfg=dict(version="gfa2", vlevel=1),
                                 ops=[A(x) for x in segs + [e]] + [dict(k="disc", text=e, id="", id2="", hold=True),
                                                                  dict(k="add", text=e2, id="", id2="", held=e)] + tail,
                                 universe=uni))
                n += 1
    # L / C / G shapes: four orientation pairs x {distinct, self, parallel}
    for o1 in "+-":
        for o2 in "+-":
            for second in ("B", "A"):
                base = ["S\tA\t*", "S\tB\t*"]
                l1 = "L\tA\t%s\t%s\t%s\t2M" % (o1, second, o2)
                l2 = "L\tA\t%s\t%s\t%s\t3M" % (o1, second, o2)
                cc = "C\tA\t%s\t%s\t%s\t0\t*" % (o1, second, o2)
                for od in ([*base, l1, l2, cc], [l1, cc, *base, l2], [cc, l2, base[1], l1, base[0]]):
                    jobs.append(dict(id="lc-%d" % n, kind="cell", cfg=dict(version="gfa1", vlevel=1),
                                     ops=[A(x) for x in od] + [dict(k="ren", text="", id="A", id2="D")],
                                     universe=["A", "B", "D"]))
                    n += 1
                # the link required by a path (in direct and in complement form) before it arrives:
                # the placeholder link is replaced in every collection it was filed in
                inv = {"+": "-", "-": "+"}
                pd = "P\tpd\tA%s,%s%s\t*" % (o1, second, o2)
                pc = "P\tpc\t%s%s,A%s\t*" % (second, inv[o2], inv[o1])
                for od in ([pd, *base, l1], [base[0], pc, l1, base[1]], [pc, pd, l1, *base], [*base, pd, pc, l1]):
                    jobs.append(dict(id="lp-%d" % n, kind="cell", cfg=dict(version="gfa1", vlevel=1),
                                     ops=[A(x) for x in od] + [dict(k="rm", text="", id="pd", id2=""),
                                                               dict(k="ren", text="", id="A", id2="D"),
                                                               dict(k="disc", text=l1.replace("\tA\t", "\tD\t"), id="", id2="")],
                                     universe=["A", "B", "D", "pd", "pc"]))
                    n += 1
                sec = second.lower()
                g1 = "G\tg1\ta%s\t%s%s\t5\t*" % (o1, sec, o2)
                g2 = "G\t*\ta%s\t%s%s\t7\t1" % (o1, sec, o2)
                b2 = ["S\ta\t3\t*", "S\tb\t3\t*"]
                for od in ([*b2, g1, g2], [g1, *b2, g2], [g2, b2[1], g1, b2[0]]):
                    jobs.append(dict(id="g-%d" % n, kind="cell", cfg=dict(version="gfa2", vlevel=1),
                                     ops=[A(x) for x in od] + [dict(k="ren", text="", id="a", id2="d")],
                                     universe=["a", "b", "d", "g1"]))
                    n += 1
    # fans: several dovetails on the same end of a segment, entered from a branch (the connectivity
    # answers follow from the end collections: other-end, neighbours, components)
    for o1 in "+-":
        for o2 in "+-":
            fan = ["S\tA\t*", "S\tB\t*", "S\tC\t*", "S\tD\t*", "L\tA\t%s\tC\t%s\t*" % (o1, o2), "L\tB\t%s\tC\t%s\t*" % (o1, o2),
                   "L\tC\t%s\tD\t%s\t*" % (o2, o1), "C\tC\t+\tC\t-\t0\t*"]
            fan2 = ["S\ta\t3\t*", "S\tb\t3\t*", "S\tc\t3\t*", "S\td\t3\t*",
                    "E\t*\ta+\tc+\t1\t3$\t0\t2\t*", "E\t*\tb+\tc+\t1\t3$\t0\t2\t*", "E\t*\tc+\td+\t1\t3$\t0\t2\t*"]
            for doc, ver, uni2, rmid in ((fan, "gfa1", ["A", "B", "C", "D"], "B"), (fan2, "gfa2", ["a", "b", "c", "d"], "b")):
                for od in (doc, doc[4:] + doc[:4], doc[::-1]):
                    jobs.append(dict(id="fan-%d" % n, kind="cell", cfg=dict(version=ver, vlevel=1),
                                     ops=[A(x) for x in od] + [dict(k="disc", text=doc[-1], id="", id2=""),
                                                               dict(k="rm", text="", id=rmid, id2="")], universe=uni2))
                    n += 1
    r = c.replay_validate(jobs, "val-C11")
    traces = list(r["by_id"].values())
    by_id = r["by_id"]
    for tid, ev, clauses, phase in r["rejects"]:
        t = by_id[tid]
        props = c.attribute(clauses, "cell")
        if "C11" in props:
            out.violations.append(dict(family="core", clauses=[x for x in clauses if "C11" in c.attribute([x], "cell")],
                                       all_clauses=clauses, event=ev, trace=tid, cfg=t["cfg"], ops=t["src"][:ev],
                                       what="clauses %s at call %d" % (",".join(clauses), ev)))
        for pp in props - {"C11"}:
            out.others[pp] = out.others.get(pp, 0) + 1
    out.add_cov(states=st[1] + r["states"], transitions=st[0] + r["states"], spec_cells=len(cells),
                traces_validated_against_impl=len(traces), events_validated=r["states"],
                evaluations=len(traces), distinct_nontrivial=len(traces), exhaustive=(tier != "quick"),
                rule="all 400 cells (2x2 orientations x 10x10 intervals of a length-3 segment incl. empty, "
                     "prefix, suffix, inner, whole) as an edge between distinct segments and as a self-edge, "
                     "each loaded in three arrival orders (quick: one rotating order per cell), then rename, "
                     "unrelated removal, removal of the edge; every cell also re-filed after the same E object was "
                     "disconnected, given another cell's intervals and added again; L/C/G lines in all four orientation pairs x "
                     "{distinct, self, parallel} x three orders; each L shape also required by paths (direct and "
                     "complement form) before the link arrives, in four orders, then path removal, rename, link removal")
    for t in traces[:2] + traces[-2:]:
        out.samples.append({"trace": t["id"], "calls": [[o["k"], o["text"] or [o["id"], o["id2"]], e["res"]]
                                                        for o, e in zip(t["src"], t["ev"])]})
    # the key clauses are also evaluated on every trace of the core histories
    jobs2 = {}
    for cat in ("gfa1", "gfa2"):
        jobs2["doc-" + cat] = c.doc_jobs(cat, 100 if tier == "quick" else 2000, 4, seed)
        jobs2["edit-" + cat] = c.edit_jobs(cat, 100 if tier == "quick" else 2000, 7, seed + 5)
    c.run_pipeline(out, jobs2, [("gfa2s", 3)] if tier == "quick" else [("gfa2s", 4), ("gfa1s", 4)], "C11")
    import shutil, subprocess, os
    if shutil.which("apalache-mc"):
        awd = tlc.workdir("apalache-edgeclass")
        pr = subprocess.run(["apalache-mc", "check", "--length=1", "--inv=Laws", "--out-dir=" + awd,
                             os.path.join(tlc.SPEC, "apalache", "EdgeClassApa.tla")], cwd=awd, stdout=subprocess.PIPE,
                            stderr=subprocess.STDOUT, text=True, timeout=1800)
        if "EXITCODE: OK" not in pr.stdout:
            raise tlc.MachineryError("Apalache check of the classification laws failed:\n" + pr.stdout[-1500:])
        out.add_cov(apalache_classification_laws="SwapSym/InvSym/Shape hold for all segment lengths 1..10^6 (symbolic)")
        shutil.rmtree(awd, ignore_errors=True)
    out.assumptions += ["TLC; spec/EdgeClass.tla is my independent reading of the GFA2 text",
                        "segment length 3 stands for every length (interval kinds depend only on 0 / inner / last)"]


CHECKS["C11"] = check_c11
LEVEL["C11"] = "model_checking"


VERSION_CFG = """SPECIFICATION Spec
CONSTRAINT Emit
INVARIANT Agrees
INVARIANT LoadAgrees
PROPERTY FailStutters
CHECK_DEADLOCK FALSE
"""


C13_LONGEST_CAP = 2500     # per (catalogue, version, level) configuration, thorough tier


def check_c13(out, tier, seed):
    """Version inference: operational = declarative on the spec for every order of <= D line
    kinds; every such order replayed incrementally, through Gfa(list/str) and from_file."""
    import os, random
    from . import core as c, tlc
    rnd = random.Random(seed)
    depth = 3 if tier == "quick" else 4
    jobs = []
    sp = [0, 0]
    nseq = 0
    nsampled = [0]
    plan = [("ver", "standard", v) for v in ("none", "gfa1", "gfa2")] + \
           [("vern", "standard", v) for v in ("none", "gfa1", "gfa2")] + \
           [("rgfa", "rgfa", v) for v in ("none", "gfa1", "gfa2")]
    for catname, dialect, cfgv in plan:
        cat = c.CATALOGUES[catname]
        ops = [o for o in c.build_ops(cat) if o["k"] == "add"]
        # level 0 skips the cross-check between a VN header and the content (documented), nothing else
        for vlevel in (((1, 0) if catname == "ver" else (1,)) if tier == "quick" else (1, 3, 0)):
            wd = tlc.workdir("ver-%s-%s-%d" % (catname, cfgv, vlevel))
            cj, _ = c.catalog_json(catname, depth, cfgv, vlevel, ops)
            cj["cfg"]["dialect"] = dialect
            cf = os.path.join(wd, "catalog.json")
            with open(cf, "w") as f:
                json.dump(cj, f)
            rc, o = tlc.run_tlc("MC_Version", VERSION_CFG, wd, env={"CATALOG_FILE": cf}, workers=tlc.NCPU, heap="6g")
            tlc.check_ok(rc, o, "MC_Version %s" % cfgv)
            st = tlc.stats(o)
            sp[0] += st[0]
            sp[1] += st[1]
            seqs = sorted({tuple(x - 1 for x in tlc.tla_value(r)[1]) for r in tlc.parse_tuples(o, "H")})
            nseq += len(seqs)
            if tier != "quick":
                # the invariants above are exhaustive at this depth; the replay is exhaustive one line
                # shorter and takes a seeded sample of the longest sequences (bounded run time)
                longest = [h for h in seqs if len(h) >= depth]
                if len(longest) > C13_LONGEST_CAP:
                    keep = set(random.Random(seed * 1000 + len(seqs)).sample(longest, C13_LONGEST_CAP))
                    seqs = [h for h in seqs if len(h) < depth or h in keep]
                    nsampled[0] += len(longest) - C13_LONGEST_CAP
            flush = dict(k="flush", text="", id="", id2="")
            entries = ["list", "file"] if tier == "quick" else ["list", "str", "file", "filecrlf"]
            validate = dict(k="validate", text="", id="", id2="")
            for n, h in enumerate(seqs):
                if tier == "quick" and vlevel == 0 and n % 2:
                    continue        # quick: half of the sequences at level 0
                texts = [ops[i]["text"] for i in h]
                # incremental (every sequence), maximal ones only would lose the refusals: keep all
                jobs.append(dict(id="vi-%s-%s-%d-%d" % (catname, cfgv, vlevel, n), kind="ver",
                                 cfg=dict(version=cfgv, vlevel=vlevel, dialect=dialect),
                                 ops=[ops[i] for i in h] + [flush, validate], universe=["A", "a"]))
                if n % (5 if tier == "quick" else 3) == (seed + 1) % 3 and dialect == "standard" and vlevel == 1:
                    # the same lines offered as Line instances (the last one, or all of them)
                    for mode in ("last", "all"):
                        seq = [dict(ops[i], inst=True) if (mode == "all" or k == len(h) - 1) else ops[i]
                               for k, i in enumerate(h)]
                        jobs.append(dict(id="vn-%s-%s-%s-%d-%d" % (mode, catname, cfgv, vlevel, n), kind="ver",
                                         cfg=dict(version=cfgv, vlevel=vlevel, dialect=dialect),
                                         ops=seq + [flush, validate], universe=["A", "a"]))
                if tier != "quick" or n % 3 == seed % 3:
                    for en in (entries if tier != "quick" else entries[n % 2: n % 2 + 1] if dialect == "standard" else entries):
                        jobs.append(dict(id="vl-%s-%s-%s-%d-%d" % (en, catname, cfgv, vlevel, n), kind="ver",
                                         cfg=dict(version=cfgv, vlevel=vlevel, dialect=dialect),
                                         ops=[dict(k="load", text="", id=en, id2="", texts=texts,
                                                   cfgversion=None if cfgv == "none" else cfgv)],
                                         universe=["A", "a"]))
    r = c.replay_validate(jobs, "val-C13")
    traces = list(r["by_id"].values())
    by_id = r["by_id"]
    for tid, ev, clauses, phase in r["rejects"]:
        t = by_id[tid]
        props = c.attribute(clauses, "ver")
        if "C13" in props:
            out.violations.append(dict(family="core", clauses=[x for x in clauses if "C13" in c.attribute([x], "ver")],
                                       all_clauses=clauses, event=ev, trace=tid, cfg=t["cfg"], ops=t["src"][:ev],
                                       res=[e["res"] for e in t["ev"][:ev]],
                                       what="clauses %s at call %d" % (",".join(clauses), ev)))
        for pp in props - {"C13"}:
            out.others[pp] = out.others.get(pp, 0) + 1
    out.add_cov(states=sp[1] + r["states"], transitions=sp[0] + r["states"], spec_states=sp[1], spec_sequences=nseq,
                traces_validated_against_impl=len(traces), events_validated=r["states"],
                evaluations=len(traces), distinct_nontrivial=len(traces), exhaustive=True, max_lines=depth - (1 if nsampled[0] else 0),
                longest_sequences_not_replayed=nsampled[0],
                rule="every sequence of <= %d distinct line kinds over the 16 kinds of the 'ver' catalogue "
                     "(H without VN, H VN 1.0/2.0/3.0, S GFA1/GFA2 syntax, L C P E F G O U, custom, comment), the 10 kinds of "
                     "'vern' (segments whose names look like tags, in both syntaxes, with links/edges/paths over them) and the rGFA catalogue, cut at "
                     "the first refusal, for Gfa(version=None|gfa1|gfa2); each replayed incrementally "
                     "(add_line + process_line_queue) and through whole-document entry points" % depth)
    for t in traces[:2] + traces[-2:]:
        out.samples.append({"trace": t["id"], "cfg": t["cfg"],
                            "calls": [[o["k"], o.get("text") or o.get("texts") or "", e["res"]] for o, e in zip(t["src"], t["ev"])]})
    out.assumptions += ["TLC; spec/Version.tla (declarative) and the Add/ProcessQueue machine of spec/Gfa.tla",
                        "vlevel 0 is excluded for the VN cross-check (documented to skip checks)"]


CHECKS["C13"] = check_c13
LEVEL["C13"] = "model_checking"


def check_c10(out, tier, seed):
    """Read-only operations: in every state reached by document-first and TLC-enumerated histories,
    every query group is run (twice each, in random order, twice over); the whole observation and
    every earlier answer must be unchanged."""
    import random
    from . import core as c, queries
    rnd = random.Random(seed)
    Qop = lambda g: dict(k="query", text="", id=g, id2="")

    def interleave(job):
        ops = []
        for i, op in enumerate(job["ops"]):
            ops.append(op)
            if i >= 2 and (i % 2 == 0 or i == len(job["ops"]) - 1):
                gs = list(queries.GROUPS)
                rnd.shuffle(gs)
                ops += [Qop(g) for g in gs[: (5 if tier == "quick" else 13)]]
        gs = list(queries.GROUPS)
        rnd.shuffle(gs)
        ops += [Qop(g) for g in gs + gs[:4]]
        return dict(job, ops=ops, id="q" + job["id"])

    jobs = []
    n = 40 if tier == "quick" else 600
    for cat in ("gfa1", "gfa2", "perm1", "perm2"):
        jobs += [interleave(j) for j in c.doc_jobs(cat, n, 3, seed)]
    # the whole catalogue as one document (refused lines skipped), segments first and segments last:
    # every query group on groups over undirected edges, self-edges, multi-line groups, fragments ...
    for cat in ("gfa1", "gfa2", "topo1", "topo2", "perm2", "permg", "perml"):
        lines = [c.text_of(l) for l in c.CATALOGUES[cat]["lines"]]
        for variant, od in (("sf", sorted(lines, key=lambda t: t[0] != "S")), ("sl", sorted(lines, key=lambda t: t[0] == "S"))):
            gs = list(queries.GROUPS)
            jobs.append(dict(id="qfull-%s-%s" % (cat, variant), kind="full",
                             cfg=dict(version=c.CATALOGUES[cat]["version"] if c.CATALOGUES[cat]["version"] != "none" else "none", vlevel=1),
                             ops=[dict(k="add", text=t, id="", id2="") for t in od] + [Qop(g) for g in gs + gs[:5]],
                             universe=c.universe_of(c.CATALOGUES[cat])))
    # states in which the version is still undecided and lines wait in the queue: a query must not
    # decide it (nor deliver the queue)
    for cat in ("ver", "kfq"):
        for j in c.random_jobs(cat, n, 4, seed + 3, kind="randq"):
            ops = []
            for op in j["ops"]:
                gs = list(queries.GROUPS)
                rnd.shuffle(gs)
                ops += [op] + [Qop(g) for g in gs[:4]]
            jobs.append(dict(j, ops=ops, id="q" + j["id"]))
    # answers must not depend on whether the question was asked before: the same history with the
    # queries after every call and with the queries at the end only gives the same final answers;
    # here: queries between the lines of multi-line groups and of the groups listing them
    for cat in ("permg", "gfa2s"):
        for j in c.doc_jobs(cat, n, 2, seed + 4, kind="docq"):
            ops = []
            for op in j["ops"]:
                ops += [op, Qop("groups"), Qop("collections")]
            jobs.append(dict(j, ops=ops + [Qop("groups")], id="q" + j["id"]))
            jobs.append(dict(j, ops=list(j["ops"]) + [Qop("groups")], id="qe" + j["id"]))
    # every state of the TLC state graph of the small catalogues (as histories)
    for cat, depth in ([("gfa1s", 2), ("gfa2s", 2)] if tier == "quick" else [("gfa1s", 3), ("gfa2s", 3)]):
        leaves, ops, st, nh = c.mc_histories(cat, depth, "mc-C10-%s" % cat)
        out.add_cov(spec_states=st[1], spec_transitions=st[0])
        for j in c.history_jobs(leaves, ops, cat, "mcq"):
            gs = list(queries.GROUPS)
            rnd.shuffle(gs)
            jobs.append(dict(j, ops=j["ops"] + [Qop(g) for g in gs], id="q" + j["id"]))
    r = c.replay_validate(jobs, "val-C10")
    traces = list(r["by_id"].values())
    by_id = r["by_id"]
    nq = sum(1 for t in traces for e in t["ev"] if e["op"]["k"] == "query")
    # the same history with and without the intermediate questions: the last answers agree
    pairs = []
    for tid, t in by_id.items():
        if tid.startswith("qe") and ("q" + tid[2:]) in by_id:
            a, b = t, by_id["q" + tid[2:]]
            if a["ev"] and b["ev"] and a["ev"][-1].get("adig") and b["ev"][-1].get("adig"):
                pairs.append({"id": b["id"], "digs": [a["ev"][-1]["adig"], b["ev"][-1]["adig"]], "res": ["-", "-"]})
    hrej, npairs = c.validate_equal_groups(pairs, "hist-C10", "query-history")
    out.add_cov(history_pairs_compared=npairs)
    for tid, ev, clauses, phase in hrej:
        t = by_id[tid]
        r["rejects"].append((tid, len(t["ev"]), clauses, phase))
    for tid, ev, clauses, phase in r["rejects"]:
        t = by_id[tid]
        props = c.attribute(clauses, "query")
        if "C10" in props:
            e = t["ev"][ev - 1]
            out.violations.append(dict(family="core", clauses=[x for x in clauses if c.CLAUSE_PROP.get(x) == "C10"],
                                       all_clauses=clauses, event=ev, trace=tid, cfg=t["cfg"], ops=t["src"][:ev],
                                       qdiff=e.get("qdiff"),
                                       what="query group %s: %s" % (e["op"]["id"], ",".join(clauses))))
        for pp in props - {"C10"}:
            out.others[pp] = out.others.get(pp, 0) + 1
    out.add_cov(states=out.cov.get("spec_states", 0) + r["states"], transitions=out.cov.get("spec_transitions", 0) + r["states"],
                traces_validated_against_impl=len(traces), events_validated=r["states"], query_events=nq,
                query_groups=len(queries.GROUPS), evaluations=nq, distinct_nontrivial=len(traces),
                rule="15 query groups (edits of clones and complements, edits of converted copies, string conversion, field/tag reads, validation, clone/==/diff, link tests, "
                     "alignment queries, neighbourhoods, group resolution, collections, finders, topology, linear "
                     "paths, select) run twice each in random order in states reached by document-first random "
                     "histories and by every TLC-enumerated history of the small catalogues")
    for t in traces[:2]:
        out.samples.append({"trace": t["id"], "calls": [[o["k"], o["text"] or o["id"], e["res"]] for o, e in zip(t["src"], t["ev"])][:30]})
    out.assumptions += ["answers are compared through a structural serialisation (harness/queries.py: ans)",
                        "version conversion and get_datatype's cache are outside the claim (DESIGN 5/C10)"]


CHECKS["C10"] = check_c10
LEVEL["C10"] = "model_checking"
