"""Registry of checks: property id -> function(out, tier, seed)."""
from . import core


def _core(out, tier, seed, prop, quick_mc, thorough_mc, quick_rand, thorough_rand):
    mc = quick_mc if tier == "quick" else thorough_mc
    nr, depth = quick_rand if tier == "quick" else thorough_rand
    jobs = {}
    for cat in ("gfa1", "gfa2"):
        jobs["rand-" + cat] = core.random_jobs(cat, nr, depth, seed)
        jobs["doc-" + cat] = core.doc_jobs(cat, nr, max(3, depth // 2), seed + 1)
    core.run_pipeline(out, jobs, mc, prop)
    out.assumptions += [
        "TLC 1.8 and the TLA+ semantics of spec/Gfa.tla, TraceGfa.tla",
        "harness/project.py: syntactic abstraction of written lines and of object references",
        "behaviour outside the catalogues / depth bound is not covered",
        "orphan placeholders (removal while a mentioned identifier is undefined) are outside the claim",
    ]


QUICK_MC = [("gfa1s", 3), ("gfa2s", 3)]
THOROUGH_MC = [("gfa1s", 4), ("gfa2s", 4), ("gfa1", 3), ("gfa2", 3)]


def make_core(prop):
    def f(out, tier, seed):
        _core(out, tier, seed, prop, QUICK_MC, THOROUGH_MC, (150, 10), (3000, 14))
    return f


LEVEL = {}
CHECKS = {}
for p in ("C02", "C05", "C08", "C09", "C16"):
    CHECKS[p] = make_core(p)
    LEVEL[p] = "model_checking"

# family modules: harness/fam_*.py, each defines PROPS = {"Cxx": (function(out, tier, seed), level)}
import glob, importlib, os
for _f in sorted(glob.glob(os.path.join(os.path.dirname(__file__), "fam_*.py"))):
    _m = importlib.import_module("harness." + os.path.basename(_f)[:-3])
    for _p, (_fn, _lvl) in getattr(_m, "PROPS", {}).items():
        CHECKS[_p] = _fn
        LEVEL[_p] = _lvl


def check_c03(out, tier, seed):
    import random
    from . import core as c
    rnd = random.Random(seed)
    plan = [("perm1", 3, 4, "none", None), ("perm2", 3, 4, "none", None)] if tier == "quick" else \
           [("perm1", 3, 6, "none", 60000), ("perm2", 3, 5, "none", None),
            ("perm1", 3, 5, "gfa1", 30000), ("perm2", 3, 4, "gfa2", None)]
    jobs = []
    sp_states = sp_trans = 0
    ndocs = 0
    for cat, lo, hi, ver, cap in plan:
        seqs, ops, st = c.mc_arrival(cat, lo, hi, "arr-%s-%s" % (cat, ver), cfgversion=ver)
        sp_trans += st[0]
        sp_states += st[1]
        if cap and len(seqs) > cap:     # keep whole documents: sample documents, not orders
            docs = sorted({tuple(sorted(k)) for k in seqs})
            rnd.shuffle(docs)
            keep, n = set(), 0
            for d in docs:
                import math
                n += math.factorial(len(d))
                keep.add(d)
                if n >= cap:
                    break
            seqs = {k: v for k, v in seqs.items() if tuple(sorted(k)) in keep}
        ndocs += len({tuple(sorted(k)) for k in seqs})
        jobs += c.perm_jobs(seqs, ops, cat, cfgversion=ver)
    if tier == "quick":    # a few larger documents, every order
        seqs, ops, st = c.mc_arrival("perm1", 5, 5, "arr-perm1-5", cfgversion="none")
        sp_trans += st[0]
        sp_states += st[1]
        docs = sorted({tuple(sorted(k)) for k in seqs})
        rnd.shuffle(docs)
        keep = set(docs[:12])
        seqs = {k: v for k, v in seqs.items() if tuple(sorted(k)) in keep}
        ndocs += len(keep)
        jobs += c.perm_jobs(seqs, ops, "perm1", cfgversion="none", tag="5")
    traces = c.replay_all(jobs)
    r = c.validate(traces, "val-C03")
    prej, ngroups = c.validate_perm_groups(traces, jobs, "perm-C03")
    by_id = r["by_id"]
    for tid, ev, clauses, phase in r["rejects"] + prej:
        t = by_id.get(tid)
        props = c.attribute(clauses, "perm") if clauses != ["order"] else {"C03"}
        if "C03" in props:
            out.violations.append(dict(family="core", clauses=clauses, event=ev, phase=phase, trace=tid,
                                       cfg=t["cfg"], ops=t["src"][:ev] if ev else t["src"],
                                       what="clauses %s at delivery %d" % (",".join(clauses), ev)))
        for p in props - {"C03"}:
            out.others[p] = out.others.get(p, 0) + 1
    out.add_cov(states=sp_states + r["states"], transitions=sp_trans + r["states"],
                spec_states=sp_states, spec_transitions=sp_trans,
                traces_validated_against_impl=len(traces), events_validated=r["states"],
                documents=ndocs, strict_documents_compared_by_digest=ngroups,
                evaluations=len(traces), distinct_nontrivial=len(traces),
                exhaustive=False,
                rule="every arrival order of every valid document (subset of the perm1/perm2 catalogues "
                     "within the size bounds, validity decided by MC_Arrival!ValidDoc) delivered with add_line, "
                     "observed after every delivery; each order is a distinct non-trivial case (>= 3 lines, "
                     ">= 1 referencing record is guaranteed only by the catalogue mix)")
    for t in traces[:3]:
        out.samples.append({"trace": t["id"], "cfg": t["cfg"], "calls": [[o["k"], o["text"], e["res"]]
                                                                     for o, e in zip(t["src"], t["ev"])]})
    out.assumptions += ["TLC; spec/Gfa.tla, MC_Arrival.tla, TraceGfa.tla, TracePerm.tla", "harness/project.py",
                        "permutations are compared modulo the relative order of the lines of one multi-line group (C17)"]


CHECKS["C03"] = check_c03
LEVEL["C03"] = "model_checking"
