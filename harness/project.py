"""Projection of live gfapy objects into the abstract, typed JSON shape that the
TLA+ trace specifications read.  Purely syntactic: it splits written text on
tabs, separates identifiers from orientations and parses integers.  It never
decides what a dovetail is, which lines should survive, etc.  TLC judges.

Abstract line record (every key always present, types homogeneous):
  rt    record type ("S","L","C","P","E","G","F","O","U","H","#","?" unknown
        placeholder, anything else = custom record)
  name  identifier or "*"   (ID tag of L/C lines is moved here)
  refs  sequence of [id, o]  (o in "+","-","" )
  f     remaining positional fields as strings
  num   integers parsed out of positions: for E  [b1,b1$,e1,e1$,b2,b2$,e2,e2$]
        for S(gfa2) [slen]; else []
  tags  sorted list of "NN:T:value" strings
"""
import re

TAG_RE = re.compile(r"^[A-Za-z0-9]{2}:[A-Za-z]:.*$", re.S)
VIRT_TAG = "co:Z:GFAPY_virtual_line"
NPOS = {"H": 0, "L": 5, "C": 6, "P": 3, "E": 8, "G": 5, "F": 7, "O": 2, "U": 2}


def _orid(s):
    if s and s[-1] in "+-":
        return [s[:-1], s[-1]]
    return [s, ""]


def _pos(s):
    if s.endswith("$"):
        core, last = s[:-1], 1
    else:
        core, last = s, 0
    try:
        v = int(core)
    except ValueError:
        v = -1
    if v >= 2 ** 30 or v < -1:
        v = -1
    return [v, last]


def abstract_fields(fields, npos=None, version=None):
    """fields: list of strings (tab-split written line)."""
    rt = fields[0]
    if rt.startswith("#"):
        return dict(rt="#", name="*", refs=[], f=["\t".join(fields)[1:]], num=[], tags=[], tagn=[], tagt=[], ovs=[])
    if rt == "?record_type?":
        return dict(rt="?", name=fields[1], refs=[], f=[], num=[], tags=[], tagn=[], tagt=[], ovs=[])
    if npos is None:
        if rt == "S":
            npos = 3 if version == "gfa2" else 2
        elif rt in NPOS:
            npos = NPOS[rt]
        else:
            npos = len(fields) - 1
            while npos > 0 and TAG_RE.match(fields[npos]):
                npos -= 1
    pos = fields[1:1 + npos]
    tags = [t for t in fields[1 + npos:] if t != VIRT_TAG]
    name, refs, f, num, ovs = "*", [], [], [], []
    if len(pos) < npos:
        # malformed: keep everything opaque
        return _fin(dict(rt=rt, name="*", refs=[], f=pos, num=[], tags=sorted(tags), ovs=[]))
    if rt == "S":
        name = pos[0]
        f = pos[1:]
        if npos == 3:
            num = [_pos(pos[1])[0]]
        else:                      # GFA1: LN tag, else the length of the sequence, else unknown (-1)
            ln = [t[5:] for t in tags if t.startswith("LN:i:")]
            if ln and re.fullmatch(r"[0-9]{1,9}", ln[0]):
                num = [int(ln[0])]
            elif pos[1] != "*":
                num = [len(pos[1])]
            else:
                num = [-1]
    elif rt in ("L", "C"):
        refs = [[pos[0], pos[1]], [pos[2], pos[3]]]
        f = pos[4:]
        ovs = [cigar_ops(pos[-1])]
        for t in tags:
            if t.startswith("ID:Z:"):
                name = t[5:]
        tags = [t for t in tags if not t.startswith("ID:Z:")]
    elif rt == "P":
        name = pos[0]
        refs = [_orid(x) for x in pos[1].split(",")]
        f = [pos[2]]
        ovs = [cigar_ops(x) for x in pos[2].split(",")]
    elif rt == "E":
        name = pos[0]
        refs = [_orid(pos[1]), _orid(pos[2])]
        f = pos[3:]
        for x in pos[3:7]:
            num.extend(_pos(x))
        ovs = [cigar_ops(pos[7])]
    elif rt == "G":
        name = pos[0]
        refs = [_orid(pos[1]), _orid(pos[2])]
        f = pos[3:]
    elif rt == "F":
        refs = [[pos[0], ""], _orid(pos[1])]       # segment, external sequence (not a graph identifier)
        f = pos[2:]
    elif rt == "O":
        name = pos[0]
        refs = [_orid(x) for x in pos[1].split(" ") if x != ""]
    elif rt == "U":
        name = pos[0]
        refs = [[x, ""] for x in pos[1].split(" ") if x != ""]
    elif rt == "H":
        pass
    else:
        f = pos
    return _fin(dict(rt=rt, name=name, refs=[{"id": a, "o": b} for a, b in refs], f=f, num=num,
                     tags=sorted(tags), ovs=ovs))


CIG_RE = re.compile(r"([0-9]+)([MIDNSHPX=])")


def cigar_ops(s):
    """'2M1D' -> [{n:2,c:'M'},{n:1,c:'D'}]; '*' or anything else -> []"""
    if not re.fullmatch(r"([0-9]+[MIDNSHPX=])+", s or ""):
        return []
    return [{"n": min(int(a), 2 ** 30), "c": b} for a, b in CIG_RE.findall(s)]


def _fin(rec):
    rec["tagn"] = [t[:2] for t in rec["tags"]]
    rec["tagt"] = [t[3:4] for t in rec["tags"]]
    return rec


def abstract_text(text, version=None):
    return abstract_fields(text.split("\t"), version=version)


class Pool:
    """Interns abstract records; index is 1-based (TLA+ sequences)."""

    def __init__(self):
        self.idx = {}
        self.items = []

    def add(self, rec):
        import json
        k = json.dumps(rec, sort_keys=True)
        i = self.idx.get(k)
        if i is None:
            self.items.append(rec)
            i = len(self.items)
            self.idx[k] = i
        return i


def _targets(v):
    """Yield the Line objects / strings referenced by a field value."""
    import gfapy
    if isinstance(v, gfapy.Line):
        yield v
    elif isinstance(v, gfapy.OrientedLine):
        yield v.line
    elif isinstance(v, list):
        for e in v:
            if isinstance(e, (gfapy.Line, gfapy.OrientedLine)):
                for t in _targets(e):
                    yield t
            elif isinstance(e, str):
                yield e
    elif isinstance(v, str):
        yield v


def _names(fn):
    """names of the segments in a neighbourhood answer ('!Exc' if the query raises)"""
    try:
        return sorted(str(x.name) if hasattr(x, "name") else str(x) for x in fn())
    except BaseException as e:  # noqa
        return ["!" + type(e).__name__]


def _etype(o):
    try:
        t = [o.is_dovetail(), o.is_containment(), o.is_internal()]
    except BaseException as e:  # noqa
        return "!" + type(e).__name__
    if t == [True, False, False]:
        return "L"
    if t == [False, True, False]:
        return "C"
    if t == [False, False, True]:
        return "I"
    return "!mixed"


def _ends(o):
    try:
        fe, te = o.from_end, o.to_end
        r = [[str(fe.name), str(fe.end_type)], [str(te.name), str(te.end_type)]]
        # other_end must map each end onto the other
        oe1, oe2 = o.other_end(fe), o.other_end(te)
        r.append([str(oe1.name), str(oe1.end_type)])
        r.append([str(oe2.name), str(oe2.end_type)])
        return r
    except BaseException as e:  # noqa
        return [["!" + type(e).__name__, ""]]


def safe_str(line):
    try:
        return str(line)
    except Exception as e:  # noqa
        return "!str\t" + type(e).__name__


def errclass(e):
    import gfapy
    if isinstance(e, gfapy.NotUniqueError):
        return "NotUniqueError"
    if isinstance(e, gfapy.VersionError):
        return "VersionError"
    if isinstance(e, gfapy.NotFoundError):
        return "NotFoundError"
    if isinstance(e, gfapy.Error):
        return "Error"
    return "FOREIGN"


def observe(gfa, pool, universe=()):
    """Full projection of a Gfa (see DESIGN 2.3)."""
    import gfapy
    try:
        listed = list(gfa.lines)
    except Exception as e:  # the listing itself failed
        return {"broken": "lines:" + type(e).__name__}
    hdr = []
    objs = []
    for l in listed:
        if l.record_type == "H":
            t = safe_str(l)
            hdr.append(t[2:] if t.startswith("H\t") else t)
        else:
            objs.append(l)
    seen = {id(o) for o in objs}
    objs.extend(o for o in gfa._records["\n"].values() if id(o) not in seen)
    index = {id(o): i + 1 for i, o in enumerate(objs)}
    out = []
    for o in objs:
        text = safe_str(o)
        fields = text.split("\t")
        try:
            npos = len(o.positional_fieldnames)
        except Exception:
            npos = None
        if o.record_type == "\n" or o.record_type == "#":
            npos = None
        rec = abstract_fields(fields, npos=npos)
        virt = 1 if o.virtual else 0
        if (VIRT_TAG in fields) != bool(virt) and o.record_type != "\n":
            rec = dict(rec, rt=rec["rt"] + "!virtmark")
        own = 1 if o._gfa is gfa else 0
        fwd = []
        for k in o.__class__.REFERENCE_FIELDS:
            if o.record_type == "P" and k == "overlaps":
                continue
            for t in _targets(o._data.get(k)):
                if isinstance(t, str):
                    fwd.append([k, -1])
                else:
                    fwd.append([k, index.get(id(t), 0)])
        refs = o._refs or {}
        if o.record_type == "P":
            for t in _targets(refs.get("links", [])):
                fwd.append(["links", -1 if isinstance(t, str) else index.get(id(t), 0)])
            # flag of each traversed link
            lf = [ol.orient for ol in refs.get("links", [])]
            rec = dict(rec)  # path link flags are logged separately
        else:
            lf = []
        br = []
        for k in sorted(refs.keys()):
            if o.record_type == "P" and k == "links":
                continue
            if o.record_type in ("O", "U") and k == "items":
                continue
            ids = []
            for t in refs[k]:
                for tt in _targets(t):
                    ids.append(-1 if isinstance(tt, str) else index.get(id(tt), 0))
            if ids:
                br.append([k, ids])
        ent = {"p": pool.add(rec), "virt": virt, "own": own, "fwd": fwd, "br": br, "lf": lf,
               "nb": [], "et": "", "ends": []}
        if o.record_type == "S":
            ent["nb"] = [_names(lambda: o.neighbours_L), _names(lambda: o.neighbours_R),
                         _names(lambda: o.containers), _names(lambda: o.contained),
                         _names(lambda: o.neighbours)]
        elif o.record_type in ("L", "C", "E") and not o.virtual:
            ent["et"] = _etype(o)
            if ent["et"] == "L":
                ent["ends"] = _ends(o)
        out.append(ent)
    obs = {"version": gfa._version if gfa._version is not None else "none",
           "qlen": len(gfa._line_queue),
           "hdr": sorted(hdr),
           "lines": out}
    # lookups
    look = []
    for ident in universe:
        r = []
        for meth in ("line", "segment", "try_get_line"):
            try:
                x = getattr(gfa, meth)(ident)
                r.append(0 if x is None else index.get(id(x), -2))
            except Exception as e:
                r.append(-10 if isinstance(e, gfapy.Error) else -20)
        look.append([ident] + r)
    obs["look"] = look
    for nm in ("names", "segment_names", "edge_names", "path_names", "gap_names", "set_names"):
        try:
            obs[nm] = sorted(str(x) for x in getattr(gfa, nm))
        except Exception as e:
            obs[nm] = ["!" + type(e).__name__]
    ext = []
    try:
        for x in sorted(str(n) for n in gfa.external_names):
            ext.append([x, sorted(index.get(id(f), 0) for f in gfa.fragments_for_external(x))])
    except Exception as e:
        ext = [["!" + type(e).__name__, []]]
    obs["ext"] = ext
    t = topology(gfa)
    obs["cc"] = t["cc"]
    obs["nd"], obs["nc"], obs["ni"], obs["nde"] = (t["n_dovetails"], t["n_containments"],
                                                   t["n_internals"], t["n_dead_ends"])
    obs["dig"] = digest(obs, pool)
    obs["digr"] = digest(obs, pool, real_only=True)
    return obs


def digest(obs, pool, real_only=False):
    """Order-insensitive digest of an observation (line identity = written text,
    independent of pool numbering, so digests of different traces are comparable).
    real_only: the part of the observation that does not involve placeholders (used for the
    stutter clause while orphan placeholders exist, which are outside the claim, DESIGN 3.1)."""
    import hashlib, json
    ls = obs["lines"]
    if real_only:
        def rr(p):
            r = pool.items[p - 1]
            return json.dumps([r["rt"], r["name"], r["refs"], r["f"], r["tags"]], sort_keys=True)
        isreal = lambda i: i >= 1 and not ls[i - 1]["virt"]
        canon = sorted(
            [rr(l["p"]), l["own"],
             sorted([k, rr(ls[i - 1]["p"])] for k, i in l["fwd"] if isreal(i)),
             sorted([k, sorted(rr(ls[i - 1]["p"]) for i in ids if isreal(i))] for k, ids in l["br"]
                    if any(isreal(i) for i in ids))]
            for l in ls if not l["virt"])
        blob = json.dumps([obs["version"], obs["qlen"], obs["hdr"], canon], sort_keys=True)
        return hashlib.md5(blob.encode()).hexdigest()[:12]
    def rid(p, virt=0):
        r = pool.items[p - 1]
        if virt and r["rt"] in ("S", "?"):
            return "placeholder:" + r["name"]     # which kind of placeholder stands for an id is not observable content
        return json.dumps([r["rt"], r["name"], r["refs"], r["f"], r["tags"]], sort_keys=True)
    def pid(i):
        return rid(ls[i - 1]["p"], ls[i - 1]["virt"]) if i >= 1 else str(i)
    canon = sorted(
        [rid(l["p"], l["virt"]), l["virt"], l["own"],
         sorted([k, pid(i)] for k, i in l["fwd"]),
         sorted([k, sorted(pid(i) for i in ids)] for k, ids in l["br"]),
         l["lf"], l["nb"], l["et"], l["ends"]] for l in ls)
    look = [[e[0]] + [pid(x) for x in e[1:]] for e in obs["look"]]
    blob = json.dumps([obs["version"], obs["qlen"], obs["hdr"], canon, look, obs["names"],
                       [[e[0], sorted(pid(i) for i in e[1])] for e in obs.get("ext", [])],
                       obs["cc"], obs["nd"], obs["nc"], obs["ni"], obs["nde"]], sort_keys=True)
    return hashlib.md5(blob.encode()).hexdigest()[:12]


def topology(gfa):
    """Scalar topology answers (C16); each guarded."""
    import gfapy
    res = {}
    try:
        res["cc"] = sorted(sorted(s.name for s in c) for c in gfa.connected_components())
    except Exception as e:
        res["cc"] = [["!" + type(e).__name__]]
    for nm in ("n_dovetails", "n_containments", "n_internals", "n_dead_ends"):
        try:
            v = getattr(gfa, nm)
            res[nm] = v() if callable(v) else v
            if not isinstance(res[nm], int):
                res[nm] = -2
        except Exception as e:
            res[nm] = -1
    return res
