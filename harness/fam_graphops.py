"""graphops family: C14 (linear paths and their merging) and C15 (segment multiplication).

Spec -> code: TLC enumerates small sequence graphs (spec/MC_LinearPaths.tla, spec/MC_Multiply.tla;
the laws of the definitions are checked on every one of them in the same run) and prints each as a
CASE tuple; this module writes a case as GFA1 / GFA2 text and runs the real gfapy on it.
Code -> spec: what gfapy answered and the full projection of the object graph before and after the
call are written to JSON; spec/TraceGraphOps.tla recomputes the chains / the merged graph / the
multiplication post-condition from the *observed* pre-state with the operators of LinearPaths.tla
and Multiply.tla and prints <<"REJECT", case, clauses>>.  Nothing is judged in Python."""
import json, os, random, signal, sys, time, copy
from multiprocessing import Pool as MPool

from . import tlc, report, project
from .core import _load_gfapy, REPO, Timeout, _alarm
from .tlc import MachineryError, NCPU

FAMILY = "graphops"
COUNT_TAGS = ("RC", "FC", "KC")


# --------------------------------------------------------------------------
# spec -> code: the enumerated cases

def _mc_cfg(nseg, maxlinks, invariants):
    return ("SPECIFICATION Spec\nCONSTANT NSeg = %d\nCONSTANT MaxLinks = %d\nCONSTRAINT Emit\n" % (nseg, maxlinks)
            + "".join("INVARIANT %s\n" % i for i in invariants) + "CHECK_DEADLOCK FALSE\n")


def mc_graphs(module, nseg, maxlinks, name, invariants):
    """Run the enumeration module; returns (list of case dicts, (generated, distinct))."""
    wd = tlc.workdir(name)
    rc, out = tlc.run_tlc(module, _mc_cfg(nseg, maxlinks, invariants), wd, workers=NCPU, heap="4g")
    tlc.check_ok(rc, out, "%s NSeg=%d MaxLinks=%d" % (module, nseg, maxlinks))
    st = tlc.stats(out)
    cases = []
    for raw in tlc.parse_tuples(out, "CASE"):
        v = tlc.tla_value(raw)
        cases.append(dict(prof=v[1],
                          segs=[dict(name=s[0], seq="".join(s[1]) or "*", len=s[2], ln=s[3],
                                     tags=list(s[4]) if len(s) > 4 else []) for s in v[2]],
                          links=[dict(n1=l[0], t1=l[1], n2=l[2], t2=l[3], ov=l[4],
                                      tags=list(l[5]) if len(l) > 5 else []) for l in v[3]],
                          conts=[dict(n1=c[0], o1=c[1], n2=c[2], o2=c[3], pos=c[4], ov=c[5], tags=list(c[6]))
                                 for c in (v[4] if len(v) > 4 else [])]))
    if st is None or len(cases) != st[1]:
        raise MachineryError("%s printed %d cases for %s distinct states" % (module, len(cases), st))
    return cases, st


def _ov1(k):
    return "*" if k < 0 else "%dM" % k


def gfa_text(case, ver):
    """The GFA1 / GFA2 text of an enumerated case (list of lines).  A dovetail between the ends
    (n1,t1) and (n2,t2) is written from n1 to n2: leaving n1 through R is n1+, entering n2
    through L is n2+.  TraceGraphOps re-derives the graph from gfapy's own rendering of the
    loaded lines and compares it with the intended one (clause harness.pre)."""
    lens = {s["name"]: s["len"] for s in case["segs"]}
    out = []
    for s in case["segs"]:
        if ver == "gfa1":
            f = ["S", s["name"], s["seq"]]
            if s["ln"]:
                f.append("LN:i:%d" % s["len"])
        else:
            f = ["S", s["name"], str(s["len"]), s["seq"]]
        out.append("\t".join(f + s["tags"]))
    for i, l in enumerate(case["links"]):
        o1 = "+" if l["t1"] == "R" else "-"
        o2 = "+" if l["t2"] == "L" else "-"
        if ver == "gfa1":
            f = ["L", l["n1"], o1, l["n2"], o2, _ov1(l["ov"])]
        else:
            k = max(l["ov"], 0)
            f = ["E", "e%d" % (i + 1), l["n1"] + o1, l["n2"] + o2]
            for n, t in ((l["n1"], l["t1"]), (l["n2"], l["t2"])):
                if t == "R":
                    f += ["%d%s" % (lens[n] - k, "$" if k == 0 else ""), "%d$" % lens[n]]
                else:
                    f += ["0", str(k)]
            f.append(_ov1(l["ov"]))
        out.append("\t".join(f + l["tags"]))
    for i, c in enumerate(case["conts"]):
        # container n1 (orientation o1) contains n2 (o2) from position pos
        if ver == "gfa1":
            f = ["C", c["n1"], c["o1"], c["n2"], c["o2"], str(c["pos"]), _ov1(c["ov"])]
        else:
            e = c["pos"] + lens[c["n2"]]
            f = ["E", "c%d" % (i + 1), c["n1"] + c["o1"], c["n2"] + c["o2"],
                 str(c["pos"]), "%d%s" % (e, "$" if e == lens[c["n1"]] else ""),
                 "0", "%d$" % lens[c["n2"]], _ov1(c["ov"])]
        out.append("\t".join(f + c["tags"]))
    return out


# --------------------------------------------------------------------------
# projection: the abstract records of project.py plus purely syntactic extras

class GPool(project.Pool):
    """Interned abstract line records, each extended with
       seq   the sequence field of an S line as 1-character strings ([] for `*`)
       ln    the integer of an LN:i: tag or -1
       cnt   the integers of the RC, FC, KC tags (-1 = absent)
       otags the other tags"""

    def add(self, rec):
        rec = dict(rec)
        seq = []
        if rec["rt"] == "S" and rec["f"]:
            s = rec["f"][-1]
            seq = [] if s == "*" else list(s)
        ln = -1
        cnt = [-1, -1, -1]
        otags = []
        for t in rec["tags"]:
            nm, ty, val = t[:2], t[3:4], t[5:]
            if ty == "i" and (nm == "LN" or nm in COUNT_TAGS) and val.lstrip("-").isdigit() \
                    and abs(int(val)) < 2 ** 30:
                if nm == "LN":
                    ln = int(val)
                    otags.append(t)
                else:
                    cnt[COUNT_TAGS.index(nm)] = int(val)
            else:
                otags.append(t)
        rec.update(seq=seq, ln=ln, cnt=cnt, otags=otags)
        return super().add(rec)


def _guard(fn):
    """Run one call into gfapy; returns (result class, exception name, value)."""
    signal.setitimer(signal.ITIMER_REAL, 10.0)
    try:
        v = fn()
        return "ok", "", v
    except Timeout:
        return "FOREIGN", "timeout", None
    except MachineryError:
        raise
    except BaseException as e:  # noqa
        return project.errclass(e), type(e).__name__, None
    finally:
        signal.setitimer(signal.ITIMER_REAL, 0)


def _path(p):
    return [[str(e.name), str(e.end_type)] for e in p]


def _universe(case):
    return sorted({s["name"] for s in case["segs"]} | {"zz"})


def run_c14(job):
    """job = dict(id, ver, case, short).  Returns the trace record (with its local pool)."""
    gfapy = _load_gfapy()
    signal.signal(signal.SIGALRM, _alarm)
    case, ver = job["case"], job["ver"]
    text = gfa_text(case, ver)
    pool = GPool()
    uni = _universe(case)
    res, exc, gfa = _guard(lambda: gfapy.Gfa(text, version=ver))
    rec = dict(id=job["id"], kind="c14", ver=ver, text=text, short=1 if job["short"] else 0,
               intended=_intended(case, ver), load=res)
    if res != "ok":
        rec["broken"] = "load:" + exc
        rec["pool"] = pool.items
        return rec
    rec["pre"] = project.observe(gfa, pool, uni)
    r, e, v = _guard(lambda: [_path(p) for p in gfa.linear_paths()])
    rec["lps"] = dict(res=r, exc=e, paths=v if r == "ok" else [])
    lp = []
    for s in case["segs"]:
        r, e, v = _guard(lambda: _path(gfa.linear_path(s["name"])))
        lp.append(dict(seg=s["name"], res=r, exc=e, path=v if r == "ok" else []))
    rec["lp"] = lp
    rec["mid"] = project.observe(gfa, pool, uni)      # the queries must not have changed anything
    kw = dict(merged_name="short") if job["short"] else {}
    steps = []
    for _ in range(2):
        r, e, _v = _guard(lambda: gfa.merge_linear_paths(**kw))
        steps.append(dict(res=r, exc=e, obs=project.observe(gfa, pool, uni)))
    rec["m1"], rec["m2"] = steps
    rec["pool"] = pool.items
    if any("broken" in o for o in (rec["pre"], rec["mid"], rec["m1"]["obs"], rec["m2"]["obs"])):
        rec["broken"] = "listing"
    return rec


def _intended(case, ver):
    """The graph the case was meant to be, in the shape TraceGraphOps compares with the
    observed pre-state (GFA1 text without LN and without sequence has no length)."""
    segs = []
    for s in case["segs"]:
        known = ver == "gfa2" or s["ln"] or s["seq"] != "*"
        segs.append(dict(name=s["name"], seq=[] if s["seq"] == "*" else list(s["seq"]),
                         len=s["len"] if known else -1))
    links = [dict(e1=[l["n1"], l["t1"]], e2=[l["n2"], l["t2"]], ov=l["ov"]) for l in case["links"]]
    return dict(segs=segs, links=links, nconts=len(case["conts"]))
