"""graphops family: C14 (linear paths and their merging) and C15 (segment multiplication).

Spec -> code: TLC enumerates small sequence graphs (spec/MC_LinearPaths.tla, spec/MC_Multiply.tla;
the laws of the definitions are checked on every one of them in the same run) and prints each as a
CASE tuple; this module writes a case as GFA1 / GFA2 text and runs the real gfapy on it.
Code -> spec: what gfapy answered and the full projection of the object graph before and after the
call are written to JSON; spec/TraceGraphOps.tla recomputes the chains / the merged graph / the
multiplication post-condition from the *observed* pre-state with the operators of LinearPaths.tla
and Multiply.tla and prints <<"REJECT", case, clauses>>.  Nothing is judged in Python.

Beyond plain graphs the enumerations hold: sequences over the whole IUPAC alphabet; parallel dovetails
with another overlap and, in GFA2, repeated anonymous E lines (identical twins); for C15 fans (all
dovetails on one segment, more links on an end than the factor) and graphs with placeholders (virtual
links under GFA1 paths, a segment without S line; built at vlevel 0 or with append())."""
import json, os, random, signal, sys, time, copy
from multiprocessing import Pool as MPool

from . import tlc, report, project
from .core import _load_gfapy, REPO, Timeout, _alarm
from .tlc import MachineryError, NCPU

FAMILY = "graphops"
COUNT_TAGS = ("RC", "FC", "KC")


# --------------------------------------------------------------------------
# spec -> code: the enumerated cases

def _mc_cfg(nseg, maxlinks, lawlinks, invariants):
    return ("SPECIFICATION Spec\nCONSTANT NSeg = %d\nCONSTANT MaxLinks = %d\nCONSTANT LawLinks = %d\n"
            "CONSTRAINT Emit\n" % (nseg, maxlinks, lawlinks)
            + "".join("INVARIANT %s\n" % i for i in invariants) + "CHECK_DEADLOCK FALSE\n")


def mc_graphs(module, nseg, maxlinks, name, invariants, lawlinks=None):
    """Run the enumeration module; returns (list of case dicts, (generated, distinct))."""
    wd = tlc.workdir(name)
    lawlinks = maxlinks if lawlinks is None else lawlinks
    rc, out = tlc.run_tlc(module, _mc_cfg(nseg, maxlinks, lawlinks, invariants), wd, workers=NCPU, heap="4g")
    tlc.check_ok(rc, out, "%s NSeg=%d MaxLinks=%d" % (module, nseg, maxlinks))
    st = tlc.stats(out)
    cases = []
    for raw in tlc.parse_tuples(out, "CASE"):
        v = tlc.tla_value(raw)
        cases.append(dict(prof=v[1],
                          segs=[dict(name=s[0], seq="".join(s[1]) or "*", len=s[2], ln=s[3],
                                     tags=list(s[4]) if len(s) > 4 else []) for s in v[2]],
                          links=[dict(n1=l[0], t1=l[1], n2=l[2], t2=l[3], ov=l[4],
                                      tags=list(l[5]) if len(l) > 5 else [],
                                      twin=l[6] if len(l) > 6 else 0) for l in v[3]],
                          conts=[dict(n1=c[0], o1=c[1], n2=c[2], o2=c[3], pos=c[4], ov=c[5], tags=list(c[6]),
                                      eid=c[7]) for c in (v[4] if len(v) > 4 else [])],
                          extra=[list(x) for x in (v[5] if len(v) > 5 else [])],
                          only={0: "", 1: "gfa1", 2: "gfa2"}[v[6] if len(v) > 6 else 0],
                          haschain=v[7] if len(v) > 7 else 0))
    if st is None or len(cases) != st[1]:
        raise MachineryError("%s printed %d cases for %s distinct states" % (module, len(cases), st))
    cases.sort(key=lambda c: json.dumps(c, sort_keys=True))     # TLC's print order depends on its workers
    return cases, st


def _cigar(ov):
    """overlap of an enumerated case as a list of [n, code]: MC_Multiply prints a length k
    (-1 = `*`), MC_LinearPaths the CIGAR itself"""
    if isinstance(ov, int):
        return [] if ov < 0 else [[ov, "M"]]
    return [list(x) for x in ov]


def _ov1(ov):
    cg = _cigar(ov)
    return "".join("%d%s" % (n, c) for n, c in cg) if cg else "*"


def gfa2_writable(case):
    """GFA2 alignments admit only M (I, D, P): `=` and `X` exist in GFA1 only"""
    return all(c == "M" for l in case["links"] for _n, c in _cigar(l["ov"]))


def has_identical_twins(case):
    """two or three dovetails with the same ends and the same overlap: GFA1 refuses a repeated
    link, GFA2 admits repeated anonymous E lines"""
    return any(l.get("twin", 0) >= 2 for l in case["links"])


def has_placeholders(case):
    """P lines over steps that no L line may join, or a segment without S line (MC_Multiply, profile 5)"""
    return bool(case.get("paths")) or any(not s.get("sline", 1) for s in case["segs"])


def spellings(case, ver, rnd):
    """A seeded spelling (0..3, see _spell_e) for every GFA2 edge of the case: dovetails, then
    containments.  Identical twins are spelled like their original (they are meant to be repeated
    lines)."""
    if ver != "gfa2":
        return None
    sp, first = [], {}
    for l in case["links"]:
        key = (l["n1"], l["t1"], l["n2"], l["t2"], json.dumps(l["ov"]))
        v = rnd.randrange(4)
        if l.get("twin", 0) >= 2:
            v = first.get(key, v)
        first.setdefault(key, v)
        sp.append(v)
    return sp + [rnd.randrange(4) for _ in cont_lines(case, ver)]


def anonymous(case):
    """the same case with every GFA2 edge written without identifier (`*`)"""
    c = dict(case)
    c["links"] = [dict(l, eid="*") for l in case["links"]]
    return c


def _flip(o):
    return "-" if o == "+" else "+"


def _spell_e(eid, a, b, ov, sp):
    """One GFA2 E line in spelling sp (0..3).  a, b = (name, orientation, [beg, end]).  The same
    alignment can be written with its two sides exchanged (bit 0) and / or read on the other strand,
    i.e. with both orientations inverted (bit 1); the positions are those of the forward strands
    and stay with their segment.  (An M-only or `*` alignment reads the same in all four.)"""
    if sp & 1:
        a, b = b, a
    if sp & 2:
        a, b = (a[0], _flip(a[1]), a[2]), (b[0], _flip(b[1]), b[2])
    return ["E", eid, a[0] + a[1], b[0] + b[1]] + a[2] + b[2] + [ov]


def cont_lines(case, ver):
    """the containments of a case that are written in this version"""
    return [c for c in case["conts"] if not (ver == "gfa2" and c.get("v1only"))]


def gfa_text(case, ver, order=None, spell=None, internals=False):
    """The GFA1 / GFA2 text of an enumerated case (list of lines).  A dovetail between the ends
    (n1,t1) and (n2,t2) is written from n1 to n2: leaving n1 through R is n1+, entering n2
    through L is n2+.  TraceGraphOps re-derives the graph from gfapy's own rendering of the
    loaded lines and compares it with the intended one (clause harness.pre)."""
    lens = {s["name"]: s["len"] for s in case["segs"]}
    out = []
    for s in case["segs"]:
        if not s.get("sline", 1):
            continue                               # a segment that is only mentioned (placeholder)
        if ver == "gfa1":
            f = ["S", s["name"], s["seq"]]
            if s["ln"]:
                f.append("LN:i:%d" % s["len"])
        else:
            f = ["S", s["name"], str(s["len"]), s["seq"]]
        out.append("\t".join(f + s["tags"]))
    for i, l in enumerate(case["links"]):
        o1 = "+" if l["t1"] == "R" else "-"
        o2 = "+" if l["t2"] == "L" else "-"
        eid = l.get("eid", "e%d" % (i + 1))        # C14 cases: GFA2 edges named e1, e2, ...
        idtag = ["ID:Z:" + l["eid"]] if l.get("eid", "*") != "*" else []
        if ver == "gfa1":
            f = ["L", l["n1"], o1, l["n2"], o2, _ov1(l["ov"])]
        else:
            k = sum(n for n, _c in _cigar(l["ov"]))
            idtag = []
            pos = []
            for n, t in ((l["n1"], l["t1"]), (l["n2"], l["t2"])):
                if t == "R":
                    pos.append(["%d%s" % (lens[n] - k, "$" if k == 0 else ""), "%d$" % lens[n]])
                else:
                    pos.append(["0", str(k)])
            f = _spell_e(eid, (l["n1"], o1, pos[0]), (l["n2"], o2, pos[1]), _ov1(l["ov"]),
                         spell[i] if spell else 0)
        out.append("\t".join(f + l["tags"] + idtag))
    if order:                                      # the dovetail lines in another order
        first = len(out) - len(case["links"])
        out[first:] = [out[first + k] for k in order]
    for i, c in enumerate(cont_lines(case, ver)):
        # container n1 (orientation o1) contains n2 (o2) from position pos
        idtag = ["ID:Z:" + c["eid"]] if c["eid"] != "*" else []
        if ver == "gfa1":
            f = ["C", c["n1"], c["o1"], c["n2"], c["o2"], str(c["pos"]), _ov1(c["ov"])]
        else:
            e = c["pos"] + lens[c["n2"]]
            idtag = []
            f = _spell_e(c["eid"], (c["n1"], c["o1"], [str(c["pos"]), "%d%s" % (e, "$" if e == lens[c["n1"]] else "")]),
                         (c["n2"], c["o2"], ["0", "%d$" % lens[c["n2"]]]), _ov1(c["ov"]),
                         spell[len(case["links"]) + i] if spell else 0)
        out.append("\t".join(f + c["tags"] + idtag))
    for name, steps, ovs in case.get("paths", []):
        out.append("\t".join(["P", name, ",".join(steps), ",".join(ovs)]))
    if internals and ver == "gfa2":                # internal overlaps (MC_Multiply), field by field
        for f in case.get("internals", []):
            out.append("\t".join(f))
    for f in case.get("extra", []):                # dependants (MC_LinearPaths, profile 6), field by field
        out.append("\t".join(f))
    return out


# --------------------------------------------------------------------------
# projection: the abstract records of project.py plus purely syntactic extras

class GPool(project.Pool):
    """Interned abstract line records, each extended with
       seq   the sequence field of an S line as 1-character strings ([] for `*`)
       ln    the integer of an LN:i: tag or -1
       cnt   the integers of the RC, FC, KC tags (-1 = absent)
       otags the other tags"""

    def add(self, rec):
        rec = dict(rec)
        seq = []
        if rec["rt"] == "S" and rec["f"]:
            s = rec["f"][-1]
            seq = [] if s == "*" else list(s)
        ln = -1
        cnt = [-1, -1, -1]
        otags = []
        for t in rec["tags"]:
            nm, ty, val = t[:2], t[3:4], t[5:]
            if ty == "i" and (nm == "LN" or nm in COUNT_TAGS) and val.lstrip("-").isdigit() \
                    and abs(int(val)) < 2 ** 30:
                if nm == "LN":
                    ln = int(val)
                    otags.append(t)
                else:
                    cnt[COUNT_TAGS.index(nm)] = int(val)
            else:
                otags.append(t)
        rec.update(seq=seq, ln=ln, cnt=cnt, otags=otags)
        return super().add(rec)


def observe(gfa, pool, universe=()):
    """The part of project.observe() that TraceGraphOps reads, computed the same way (written text
    of every listed line -> abstract record; forward references and back-reference collections as
    indices into the listing; header; connected_components(); an order-insensitive digest).  The
    full projection costs about 3 ms per state (neighbourhood queries, lookups, counters) and a case
    has up to three states; this one costs about a third."""
    import hashlib
    try:
        listed = list(gfa.lines)
    except Exception as e:  # noqa
        return {"broken": "lines:" + type(e).__name__}
    hdr, objs = [], []
    for l in listed:
        if l.record_type == "H":
            t = project.safe_str(l)
            hdr.append(t[2:] if t.startswith("H\t") else t)
        else:
            objs.append(l)
    seen = {id(o) for o in objs}
    objs.extend(o for o in gfa._records["\n"].values() if id(o) not in seen)
    index = {id(o): i + 1 for i, o in enumerate(objs)}
    out, canon = [], []
    for o in objs:
        text = project.safe_str(o)
        fields = text.split("\t")
        try:
            npos = len(o.positional_fieldnames)
        except Exception:  # noqa
            npos = None
        if o.record_type in ("\n", "#"):
            npos = None
        rec = project.abstract_fields(fields, npos=npos)
        virt = 1 if o.virtual else 0
        if (project.VIRT_TAG in fields) != bool(virt) and o.record_type != "\n":
            rec = dict(rec, rt=rec["rt"] + "!virtmark")
        own = 1 if o._gfa is gfa else 0
        fwd = []
        for k in o.__class__.REFERENCE_FIELDS:
            if o.record_type == "P" and k == "overlaps":
                continue
            for t in project._targets(o._data.get(k)):
                fwd.append([k, -1 if isinstance(t, str) else index.get(id(t), 0)])
        refs = o._refs or {}
        if o.record_type == "P":
            for t in project._targets(refs.get("links", [])):
                fwd.append(["links", -1 if isinstance(t, str) else index.get(id(t), 0)])
        br = []
        for k in sorted(refs.keys()):
            if (o.record_type == "P" and k == "links") or (o.record_type in ("O", "U") and k == "items"):
                continue
            ids = []
            for t in refs[k]:
                for tt in project._targets(t):
                    ids.append(-1 if isinstance(tt, str) else index.get(id(tt), 0))
            if ids:
                br.append([k, ids])
        out.append({"p": pool.add(rec), "virt": virt, "own": own, "fwd": fwd, "br": br})
        canon.append([text, virt, own])
    texts = [c[0] for c in canon]
    ref = lambda i: texts[i - 1] if i >= 1 else str(i)
    for c, ln in zip(canon, out):
        c.append(sorted([k, ref(i)] for k, i in ln["fwd"]))
        c.append(sorted([k, sorted(ref(i) for i in ids)] for k, ids in ln["br"]))
    try:
        cc = sorted(sorted(str(x.name) for x in c) for c in gfa.connected_components())
    except Exception as e:  # noqa
        cc = [["!" + type(e).__name__]]
    obs = {"lines": out, "hdr": sorted(hdr), "cc": cc}
    obs["dig"] = hashlib.md5(json.dumps([sorted(canon), obs["hdr"], cc], sort_keys=True).encode()).hexdigest()[:12]
    return obs


def _guard(fn):
    """Run one call into gfapy; returns (result class, exception name, value)."""
    # watchdog on the CPU time of this process (a wall-clock timer fires spuriously when the
    # machine is oversubscribed; a call that does not terminate burns CPU)
    signal.setitimer(signal.ITIMER_VIRTUAL, 20.0)
    try:
        v = fn()
        return "ok", "", v
    except Timeout:
        return "FOREIGN", "timeout", None
    except MachineryError:
        raise
    except BaseException as e:  # noqa
        return project.errclass(e), type(e).__name__, None
    finally:
        signal.setitimer(signal.ITIMER_VIRTUAL, 0)


def _path(p):
    return [[str(e.name), str(e.end_type)] for e in p]


def _universe(case):
    return sorted({s["name"] for s in case["segs"]} | {"zz"})


def run_c14(job, pool=None):
    """job = dict(id, ver, case, short).  Returns the trace record (with its pool)."""
    gfapy = _load_gfapy()
    signal.signal(signal.SIGVTALRM, _alarm)
    case, ver = job["case"], job["ver"]
    text = gfa_text(case, ver, None, job.get("spell"))
    pool = pool or GPool()
    uni = _universe(case)
    res, exc, gfa = _guard(lambda: gfapy.Gfa(text, version=ver))
    rec = dict(id=job["id"], kind="c14", ver=ver, text=text, short=1 if job["short"] else 0,
               intended=_intended(case, ver), load=res)
    if res != "ok":
        rec["broken"] = "load:" + exc
        rec["pool"] = pool.items
        return rec
    rec["pre"] = observe(gfa, pool, uni)
    r, e, v = _guard(lambda: [_path(p) for p in gfa.linear_paths()])
    rec["lps"] = dict(res=r, exc=e, paths=v if r == "ok" else [])
    lp = []
    for s in case["segs"]:
        r, e, v = _guard(lambda: _path(gfa.linear_path(s["name"])))
        lp.append(dict(seg=s["name"], res=r, exc=e, path=v if r == "ok" else []))
    rec["lp"] = lp
    kw = dict(merged_name="short") if job["short"] else {}
    steps = []
    for _ in range(2):
        r, e, _v = _guard(lambda: gfa.merge_linear_paths(**kw))
        steps.append(dict(res=r, exc=e, obs=observe(gfa, pool, uni)))
    rec["m1"], rec["m2"] = steps
    rec["pool"] = pool.items
    if any("broken" in o for o in (rec["pre"], rec["m1"]["obs"], rec["m2"]["obs"])):
        rec["broken"] = "listing"
    return rec


def _intended(case, ver):
    """The graph the case was meant to be, in the shape TraceGraphOps compares with the
    observed pre-state (GFA1 text without LN and without sequence has no length)."""
    segs = []
    for s in case["segs"]:
        if not s.get("sline", 1):
            continue
        known = ver == "gfa2" or s["ln"] or s["seq"] != "*"
        segs.append(dict(name=s["name"], seq=[] if s["seq"] == "*" else list(s["seq"]),
                         len=s["len"] if known else -1))
    links = [dict(e1=[l["n1"], l["t1"]], e2=[l["n2"], l["t2"]],
                  ov=[dict(n=n, c=c) for n, c in _cigar(l["ov"])]) for l in case["links"]]
    # virtok: the case was built to contain placeholders (virtual lines)
    return dict(segs=segs, links=links, nconts=len(cont_lines(case, ver)), virtok=1 if has_placeholders(case) else 0)


# --------------------------------------------------------------------------
# code -> spec: trace files, TLC validation

OBS_KEYS = ("lines", "cc", "dig", "hdr")
LINE_KEYS = ("p", "virt", "own", "fwd", "br")


def _slim(obs):
    """The part of an observation TraceGraphOps reads (keeps the JSON small)."""
    if "broken" in obs:
        return obs
    o = {k: obs[k] for k in OBS_KEYS}
    o["lines"] = [{k: ln[k] for k in LINE_KEYS} for ln in obs["lines"]]
    return o


def _obs_slots(rec):
    yield rec, "pre"
    for k in ("m1", "m2"):
        if k in rec:
            yield rec[k], "obs"


def write_shards(recs, wd, nshards):
    """recs carry a local pool; re-intern into one pool per shard."""
    nshards = max(1, min(nshards, len(recs)))
    files = []
    for s in range(nshards):
        part = recs[s::nshards]
        if not part:
            continue
        pool = project.Pool()           # records are already extended by GPool
        cases = []
        for r in part:
            m = {i + 1: pool.add(x) for i, x in enumerate(r["pool"])}
            c = {k: v for k, v in r.items() if k not in ("pool", "text", "case", "job")}
            c = copy.deepcopy(c)
            for holder, key in _obs_slots(c):
                o = _slim(holder[key])
                for ln in o["lines"]:
                    ln["p"] = m[ln["p"]]
                holder[key] = o
            cases.append(c)
        f = os.path.join(wd, "shard%d.json" % s)
        with open(f, "w") as fh:
            json.dump({"pool": pool.items, "cases": cases}, fh)
        files.append(f)
    return files


TRACE_CFG = "SPECIFICATION Spec\nINVARIANT Judge\nCHECK_DEADLOCK FALSE\n"


def _validate_files(files, n, name):
    if not files:
        return {}
    res = tlc.run_sharded("TraceGraphOps", TRACE_CFG, files, name + "-tlc", heap="2g")
    rej = {}
    distinct = 0
    for rc, out in res:
        st = tlc.stats(out)
        if rc != 0 or st is None or "No error has been found" not in out:
            raise MachineryError("TraceGraphOps failed:\n" + "\n".join(out.splitlines()[-30:]))
        distinct += st[1]
        for raw in tlc.parse_tuples(out, "REJECT"):
            v = tlc.tla_value(raw)
            rej[v[1]] = sorted(v[2])
    if distinct != n:
        raise MachineryError("TraceGraphOps consumed %d states, expected %d" % (distinct, n))
    return rej


def validate(recs, name):
    """Small lists of records held in memory (replay, selftest).
    Returns {case id: sorted clauses} for the rejected cases, and the number of states."""
    good = [r for r in recs if "broken" not in r]
    if not good:
        return {}, 0
    wd = tlc.workdir(name + "-shards")
    files = write_shards(good, wd, NCPU)
    return _validate_files(files, len(good), name), len(good)


def _summary(r):
    """What the parent process keeps of a record (the records themselves go to the shard file)."""
    m1 = r.get("m1", {})
    return dict(id=r["id"], kind=r["kind"], ver=r["ver"], text=r["text"], short=r.get("short", 0),
                call=r.get("call"), args=r.get("args"), broken=r.get("broken"), virt_on_seg=r.get("virt_on_seg", 0),
                m1=dict(res=m1.get("res"), exc=m1.get("exc")),
                m2=dict(res=r.get("m2", {}).get("res"), exc=r.get("m2", {}).get("exc")),
                lps=dict(res=r.get("lps", {}).get("res"), paths=r.get("lps", {}).get("paths", [])))


def _run_chunk(task):
    """One worker: run a chunk of jobs with one pool, write the shard file, return summaries."""
    kind, jobs, path = task
    fn = run_c14 if kind == "c14" else run_c15
    pool = GPool()
    cases, sums = [], []
    for j in jobs:
        r = fn(j, pool)
        sums.append(_summary(r))
        if "broken" in r:
            continue
        c = {k: v for k, v in r.items() if k not in ("pool", "text", "case", "job")}
        for holder, key in _obs_slots(c):
            holder[key] = _slim(holder[key])
        cases.append(c)
    if cases:
        with open(path, "w") as fh:
            json.dump({"pool": pool.items, "cases": cases}, fh)
    return sums, (path if cases else None), len(cases)


def run_and_validate(kind, jobs, name):
    """Run all jobs (chunks of <= ~5000 cases, one shard file each, written by the workers so that
    the recordings never accumulate in one process), then validate the shard files with TLC.
    Returns (summaries, {case id: clauses}, number of validated cases, seconds gfapy, seconds TLC)."""
    t0 = time.time()
    wd = tlc.workdir(name + "-shards")
    nchunks = max(1, min(len(jobs), max(NCPU, len(jobs) // 5000 + 1)))
    tasks = [(kind, jobs[i::nchunks], os.path.join(wd, "shard%d.json" % i)) for i in range(nchunks)]
    with MPool(processes=min(NCPU, nchunks)) as mp:
        res = mp.map(_run_chunk, tasks, chunksize=1)
    sums = [x for r in res for x in r[0]]
    files = [r[1] for r in res if r[1]]
    n = sum(r[2] for r in res)
    t1 = time.time()
    rej = _validate_files(files, n, name)
    order = {j["id"]: k for k, j in enumerate(jobs)}
    sums.sort(key=lambda x: order[x["id"]])
    return sums, rej, n, t1 - t0, time.time() - t1


def _machinery(recs, rej):
    bad = [r for r in recs if (r.get("broken") or "").startswith("load:")]
    if bad:
        raise MachineryError("an enumerated case was not loadable by gfapy: %s -> %s\n%s"
                             % (bad[0]["id"], bad[0]["broken"], "\n".join(bad[0]["text"])))
    h = [i for i, c in rej.items() if any(x.startswith("harness.") for x in c)]
    if h:
        raise MachineryError("text builder and specification disagree on %d cases, e.g. %s %s"
                             % (len(h), h[0], rej[h[0]]))


# --------------------------------------------------------------------------
# C14

C14_INV = ["InvLaws", "InvLaws2"]


def c14_jobs(tier, seed, out=None):
    rnd = random.Random(seed)
    if tier == "quick":
        base, st1 = mc_graphs("MC_LinearPaths", 3, 3, "graphops-mc14-3", C14_INV)
        big, st2 = mc_graphs("MC_LinearPaths", 4, 2, "graphops-mc14-4", C14_INV)
        big = [c for c in big if len(c["links"]) == 2]
        sample = rnd.sample(big, min(len(big), 900))
        bounds = "3 segments x <= 3 dovetails exhaustive (with dependants, profile 6: the graphs with a chain and 4 %% " \
                 "of the others); 4 segments x 2 dovetails: %d of %d sampled" % (
            len(sample), len(big))
        cases = base + sample
    else:
        base, st1 = mc_graphs("MC_LinearPaths", 3, 4, "graphops-mc14-3", C14_INV)
        big, st2 = mc_graphs("MC_LinearPaths", 4, 4, "graphops-mc14-4", C14_INV, lawlinks=3)
        n4 = [c for c in big if len(c["links"]) == 4]
        rest = [c for c in big if len(c["links"]) < 4]
        sample = rnd.sample(n4, min(len(n4), 20000))
        bounds = ("3 segments x <= 4 dovetails and 4 segments x <= 3 dovetails exhaustive; "
                  "4 segments x 4 dovetails: %d of %d sampled (laws of the definitions checked by TLC "
                  "up to 3 dovetails there)" % (len(sample), len(n4)))
        cases = base + rest + sample
    jobs = []
    for i, c in enumerate(cases):
        ident = has_identical_twins(c)
        # graphs with dependants: those with a chain (a member and its dependants go), few of the others
        if c["prof"] == 6 and not c.get("haschain") and rnd.random() >= 0.04:
            continue
        for ver in ("gfa1", "gfa2"):
            if ver == "gfa2" and not gfa2_writable(c):
                continue
            if ver == "gfa1" and ident:
                continue
            if c.get("only") and ver != c["only"]:
                continue
            jobs.append(dict(id="c14-%d-%s" % (i, ver), ver=ver, case=anonymous(c) if ident else c,
                             short=(c["prof"] == 3), spell=spellings(c, ver, rnd)))
    if out is not None:
        per = {}
        for j in jobs:
            k = "profile %d %s" % (j["case"]["prof"], j["ver"])
            per[k] = per.get(k, 0) + 1
        joined = sum(1 for j in jobs if any(c != "M" or len(_cigar(l["ov"])) > 1
                                            for l in j["case"]["links"] for _n, c in _cigar(l["ov"])))
        out.add_cov(spec_states=st1[1] + st2[1], spec_transitions=st1[0] + st2[0], bounds=bounds,
                    cases_per_profile=json.dumps(per, sort_keys=True),
                    cases_with_eq_x_or_multi_op_overlap=joined,
                    cases_with_identical_parallel_edges=sum(1 for j in jobs if has_identical_twins(j["case"])))
    return jobs


def _c14_nontrivial(r):
    """rule: linear_paths() reported at least one chain and the merge went through"""
    return bool(r.get("lps", {}).get("paths")) and r.get("m1", {}).get("res") == "ok"


def _viol(prop, r, clauses, job):
    mine = [c for c in clauses if c.startswith(prop + ".") or c == "foreign"]
    call = r.get("call") or "merge_linear_paths(%s)" % ("merged_name='short'" if r.get("short") else "")
    m1 = r.get("m1", {})
    return dict(family=FAMILY, clauses=mine, all_clauses=clauses, input="\n".join(r["text"]), api=call,
                version=r["ver"], result=m1.get("res", "") + (":" + m1["exc"] if m1.get("exc") else ""),
                what="%s on %s: clauses %s (result %s)" % (call, r["ver"], ",".join(mine), m1.get("res")),
                job=job)


def _order(viols):
    """One violation of every distinct (clauses, result, version) signature first, so that the
    replay files written by report.py show every kind of rejection of the run."""
    groups = {}
    for v in viols:
        groups.setdefault((tuple(v["clauses"]), v["result"], v["version"]), []).append(v)
    out = []
    for g in groups.values():
        g.sort(key=lambda v: (len(v["input"]), v["input"], v["api"]))      # smallest input first
    rows = sorted(groups.values(), key=lambda g: (-len(g), g[0]["input"]))
    i = 0
    while any(rows):
        for g in rows:
            if i < len(g):
                out.append(g[i])
        i += 1
        if i > max(len(g) for g in rows):
            break
    return out


def check_c14(out, tier, seed):
    t0 = time.time()
    jobs = c14_jobs(tier, seed, out)
    t1 = time.time()
    recs, rej, states, tg, tv = run_and_validate("c14", jobs, "graphops-val14")
    out.add_cov(phase_seconds="enumeration+laws (TLC) %.0f, gfapy %.0f, trace validation (TLC) %.0f on %d cpus"
                % (t1 - t0, tg, tv, NCPU))
    _machinery(recs, rej)
    byid = {j["id"]: j for j in jobs}
    for r in recs:
        cl = rej.get(r["id"])
        if r.get("broken"):
            cl = ["C14.graph"]
        if cl:
            out.violations.append(_viol("C14", r, cl, byid[r["id"]]))
    out.violations[:] = _order(out.violations)
    shapes = {json.dumps([r["text"]]) for r in recs if _c14_nontrivial(r)}
    out.add_cov(evaluations=len(recs), distinct_nontrivial=len(shapes), traces_validated=states,
                rule="case = one enumerated graph (GFA1 or GFA2 text) on which linear_paths(), linear_path(s) "
                     "for every s, merge_linear_paths() twice were run and judged by TraceGraphOps; "
                     "non-trivial = distinct text with at least one chain reported and a merge that returned",
                chains_cases=sum(1 for r in recs if r.get("lps", {}).get("paths")),
                exhaustive=False)
    for r in [r for r in recs if _c14_nontrivial(r)][:3]:
        out.samples.append({"text": r["text"], "linear_paths": r["lps"]["paths"], "merge": r["m1"]["res"]})
    out.assumptions += [
        "TLC and the TLA+ semantics of spec/LinearPaths.tla, Gfa.tla (dovetail ends), TraceGraphOps.tla",
        "harness/project.py + GPool: syntactic abstraction of written lines and object references",
        "graphs of <= 4 segments and <= 4 dovetails (plus two parallel twins, and in GFA2 repeated anonymous "
        "edges); overlaps `*` or CIGARs of 1-2 "
        "operations over {M, =} of total length <= 2 (3M on the twins); with X: merge or clean refusal accepted",
        "sequences over the IUPAC nucleotide alphabet without U, both cases (complement table of LinearPaths.tla)",
        "GFA2 edges in a seeded one of their four spellings (sides exchanged, both orientations inverted)",
        "dependants of chain members and dovetails (containments, paths, fragments, gaps, groups): only that the "
        "reference graph stays closed and symmetric without placeholders, and the untouched rest, is demanded",
    ]


# --------------------------------------------------------------------------
# C15

C15_INV = ["Satisfiable", "Discriminating"]


def mc_multiply(nseg, maxlinks, lawlinks, name):
    """MC_Multiply: graphs (CASE), the argument catalogue (ARGS), laws checked in the same run."""
    wd = tlc.workdir(name)
    cfg = _mc_cfg(nseg, maxlinks, lawlinks, C15_INV)
    rc, out = tlc.run_tlc("MC_Multiply", cfg, wd, workers=NCPU, heap="4g")
    tlc.check_ok(rc, out, "MC_Multiply NSeg=%d MaxLinks=%d" % (nseg, maxlinks))
    st = tlc.stats(out)
    cases = []
    for raw in tlc.parse_tuples(out, "CASE"):
        v = tlc.tla_value(raw)
        cases.append(dict(prof=v[1],
                          segs=[dict(name=s[0], seq="".join(s[1]) or "*", len=s[2], ln=s[3], tags=list(s[4]))
                                for s in v[2]],
                          links=[dict(n1=l[0], t1=l[1], n2=l[2], t2=l[3], ov=l[4], tags=list(l[5]), eid=l[6],
                                      twin=l[7]) for l in v[3]],
                          conts=[dict(n1=c[0], o1=c[1], n2=c[2], o2=c[3], pos=c[4], ov=c[5], tags=list(c[6]),
                                      eid=c[7], v1only=c[8]) for c in v[4]],
                          paths=[[p_[0], list(p_[1]), list(p_[2])] for p_ in v[5]], opt=v[7],
                          internals=[list(x) for x in v[8]]))
        for i, s in enumerate(cases[-1]["segs"]):
            s["sline"] = 1 if (i + 1) in v[6] else 0
    if st is None or len(cases) != st[1]:
        raise MachineryError("MC_Multiply printed %d cases for %s distinct states" % (len(cases), st))
    cases.sort(key=lambda c: json.dumps(c, sort_keys=True))
    a = tlc.parse_tuples(out, "ARGS")
    if not a:
        raise MachineryError("MC_Multiply printed no ARGS catalogue")
    v = tlc.tla_value(a[0])
    args = sorted((dict(seg=x[0], k=x[1], policy=x[2], names=x[3]) for x in v[1]),
                  key=lambda a: json.dumps(a, sort_keys=True))
    return cases, args, list(v[2]), st


def run_c15(job, pool=None):
    """job = dict(id, ver, case, arg = dict(seg (1-based index), k, policy, names), given)."""
    gfapy = _load_gfapy()
    signal.signal(signal.SIGVTALRM, _alarm)
    case, ver, a = job["case"], job["ver"], job["arg"]
    text = gfa_text(case, ver, job.get("order"), job.get("spell"), job.get("internals", False))
    pool = pool or GPool()
    uni = _universe(case)
    seg = case["segs"][a["seg"] - 1]["name"]
    names = list(job["given"][:a["k"] - 1]) if a["names"] == "given" and a["k"] >= 2 else []
    call = "multiply(%r, %d, copy_names=%r, distribute=%r)" % (seg, a["k"], names or None, a["policy"])
    # placeholders exist only below validation level 1 (a path over an undefined link is refused there)
    # (or when the lines are appended one by one and the Gfa is never validated as a whole)
    build = job.get("build") or ("vlevel0" if has_placeholders(case) else "")

    def construct():
        if build == "append":
            g = gfapy.Gfa(version=ver)
            for t in text:
                g.append(t)
            return g
        return gfapy.Gfa(text, version=ver, **(dict(vlevel=0) if build == "vlevel0" else {}))
    if build:
        call += " after " + ("Gfa() + append(line) for every line" if build == "append" else "Gfa(..., vlevel=0)")
    res, exc, gfa = _guard(construct)
    rec = dict(id=job["id"], kind="c15", ver=ver, text=text, call=call,
               args=dict(seg=seg, k=a["k"], policy=a["policy"], names=names),
               intended=_intended(case, ver), load=res)
    if res != "ok":
        rec["broken"] = "load:" + exc
        rec["pool"] = pool.items
        return rec
    rec["pre"] = observe(gfa, pool, uni)
    # (coverage only) placeholder edges on the segment that is multiplied
    rec["virt_on_seg"] = sum(1 for ln in rec["pre"].get("lines", []) if ln["virt"] and any(
        x["id"] == seg for x in pool.items[ln["p"] - 1]["refs"]))
    r, e, _v = _guard(lambda: gfa.multiply(seg, a["k"], copy_names=(names or None), distribute=a["policy"]))
    rec["m1"] = dict(res=r, exc=e, obs=observe(gfa, pool, uni))
    rec["pool"] = pool.items
    if "broken" in rec["pre"] or "broken" in rec["m1"]["obs"]:
        rec["broken"] = "listing"
    return rec


def c15_jobs(tier, seed, out=None):
    rnd = random.Random(seed)
    if tier == "quick":
        shapes, args, given, st = mc_multiply(3, 3, 2, "graphops-mc15")
        plan = {0: 4, 1: 4, 2: 4, 3: 0.55}         # dovetails in the graph -> argument tuples per graph
        fan = {0: 0, 1: 2, 2: 3, 3: 2, 4: 1}       # ... in a fan (profile 4)
        plh = 1.4                                  # ... in a graph with placeholders (profile 5)
    else:
        shapes, args, given, st = mc_multiply(3, 4, 2, "graphops-mc15")
        plan = {0: len(args), 1: len(args), 2: len(args), 3: 3, 4: 0.5}
        fan = {0: 0, 1: 20, 2: 20, 3: 12, 4: 3, 5: 1}
        plh = 6
    # argument tuples that multiply (factor >= 2) are what the property is about: weight them
    heavy = [a for a in args if a["k"] >= 2]
    light = [a for a in args if a["k"] < 2]
    # a fan has its dovetails on segment 1: multiply that one, mostly with distribution
    hub = [a for a in heavy if a["seg"] == 1]
    hubd = [a for a in hub if a["policy"] in ("L", "R", "auto")]
    jobs = []
    per = {}
    for c in shapes:
        nl = len(c["links"])
        if c["prof"] == 4:
            m = min(fan[nl], len(hub))
            nd = min(len(hubd), (m * 3 + 3) // 4)
            pick = rnd.sample(hubd, nd)
            pick += rnd.sample([a for a in hub if a not in pick], m - nd)
        elif c["prof"] in (5, 6):
            # a segment without S line is not a segment of the graph: not multiplied
            real = [a for a in heavy if c["segs"][a["seg"] - 1]["sline"]]
            if c["prof"] == 6 and rnd.random() < 0.6:       # a placeholder named like an automatic copy name
                real = [a for a in real if a["names"] == "auto"]
            m = int(plh) + (1 if rnd.random() < plh - int(plh) else 0)
            pick = rnd.sample(real, min(m, len(real)))
        else:
            m = plan[nl]
            if m >= len(args):
                pick = list(args)
            elif m < 1:
                pick = [rnd.choice(heavy)] if rnd.random() < m else []
            else:
                pick = rnd.sample(heavy, m - 1) + [rnd.choice(light if rnd.random() < 0.5 else heavy)]
        for a in pick:
            # a repeated link exists in GFA2 only, placeholders for path steps in GFA1 only
            ver = "gfa2" if has_identical_twins(c) else "gfa1" if c.get("paths") else \
                rnd.choice(("gfa1", "gfa2"))
            order = list(range(nl))
            rnd.shuffle(order)                     # the dovetail lines are written in a seeded order
            build = rnd.choice(("vlevel0", "append")) if has_placeholders(c) else ""
            # internal overlaps (GFA2 only; they need the three segments defined): in half of the texts
            internals = ver == "gfa2" and all(x["sline"] for x in c["segs"]) and rnd.random() < 0.5
            jobs.append(dict(id="c15-%d" % len(jobs), ver=ver, case=c, arg=a, given=given, order=order,
                             build=build, spell=spellings(c, ver, rnd), internals=internals))
        key = "%d%s" % (nl, {4: " (fan)", 5: " (placeholders)", 6: " (placeholders)"}.get(c["prof"], ""))
        per[key] = per.get(key, 0) + len(pick)
    if out is not None:
        out.add_cov(spec_states=st[1], spec_transitions=st[0], argument_tuples=len(args),
                    cases_with_identical_parallel_edges=sum(1 for j in jobs if has_identical_twins(j["case"])),
                    cases_built_with_placeholders=sum(1 for j in jobs if has_placeholders(j["case"])),
                    cases_with_internal_overlaps=sum(1 for j in jobs if j["internals"]),
                    bounds="3 segments x <= %d dovetails (21 end pairs + 2 parallel twins) x 4 containment options "
                    "x 3 profiles, fans of <= %d dovetails on one segment (11 end pairs, each with a twin of another "
                    "overlap and an identical twin), graphs of <= 2 dovetails with 6 path / missing-segment options "
                    "= %d graphs; argument catalogue = segment x {-1,0,1} + segment x {2,3} x "
                    "5 policies x {automatic, given names} = %d tuples; cases per number of dovetails: %s "
                    "(all tuples when the plan says %d, seeded samples otherwise); GFA1/GFA2 chosen by the seed"
                    % (max(plan), max(fan), len(shapes), len(args), json.dumps(per, sort_keys=True), len(args)))
    return jobs


def _c15_nontrivial(r):
    """rule: factor >= 2, the call returned, and the multiplied segment had at least one edge"""
    seg = r["args"]["seg"]
    return r["args"]["k"] >= 2 and r.get("m1", {}).get("res") == "ok" and \
        any(("\t" + seg + "\t") in t or ("\t" + seg + "+") in t or ("\t" + seg + "-") in t
            for t in r["text"] if t[0] in "LCE")


def check_c15(out, tier, seed):
    t0 = time.time()
    jobs = c15_jobs(tier, seed, out)
    t1 = time.time()
    recs, rej, states, tg, tv = run_and_validate("c15", jobs, "graphops-val15")
    out.add_cov(phase_seconds="enumeration+laws (TLC) %.0f, gfapy %.0f, trace validation (TLC) %.0f on %d cpus"
                % (t1 - t0, tg, tv, NCPU))
    _machinery(recs, rej)
    byid = {j["id"]: j for j in jobs}
    for r in recs:
        cl = rej.get(r["id"])
        if r.get("broken"):
            cl = ["C15.graph"]
        if cl:
            out.violations.append(_viol("C15", r, cl, byid[r["id"]]))
    out.violations[:] = _order(out.violations)
    nt = {json.dumps([r["text"], r["call"]]) for r in recs if _c15_nontrivial(r)}
    out.add_cov(evaluations=len(recs), distinct_nontrivial=len(nt), traces_validated=states,
                cases_with_placeholder_edge_on_segment=sum(1 for r in recs if r.get("virt_on_seg")),
                rule="case = one enumerated graph (GFA1 or GFA2 text) and one argument tuple of multiply(), "
                     "pre- and post-state judged by TraceGraphOps with Multiply.tla; non-trivial = distinct "
                     "(text, call) with factor >= 2 that returned and whose segment has at least one edge",
                exhaustive=False)
    for r in [r for r in recs if _c15_nontrivial(r)][:3]:
        out.samples.append({"text": r["text"], "call": r["call"], "result": r["m1"]["res"]})
    out.assumptions += [
        "TLC and the TLA+ semantics of spec/Multiply.tla, Gfa.tla (dovetail ends), TraceGraphOps.tla",
        "harness/project.py + GPool: syntactic abstraction of written lines and object references",
        "graphs of 3 segments, <= 4 dovetails (<= 5 in a fan on one segment, with parallel and repeated links), "
        "<= 3 containments; GFA2 internal overlaps with counts; ordinary tags of every datatype on segments and edges; "
        "placeholders: virtual links of GFA1 paths and one undefined segment; factors -1..3",
    ]



# --------------------------------------------------------------------------
# replay of one recorded violation

def _rerun(prop, job):
    rec = (run_c14 if prop == "C14" else run_c15)(job)
    if "broken" in rec:
        return rec, [prop + ".graph"]
    rej, _ = validate([rec], "graphops-replay")
    return rec, rej.get(rec["id"], [])


def replay(prop, violation, path):
    job = violation["job"]
    rec, clauses = _rerun(prop, job)
    print("input (%s):" % rec["ver"])
    for t in rec["text"]:
        print("   ", t)
    if prop == "C14":
        print("linear_paths() ->", rec.get("lps", {}).get("res"), rec.get("lps", {}).get("paths"))
        print("merge_linear_paths(%s) ->" % ("merged_name='short'" if job["short"] else ""),
              rec.get("m1", {}).get("res"), rec.get("m1", {}).get("exc"),
              "; again ->", rec.get("m2", {}).get("res"), rec.get("m2", {}).get("exc"))
    else:
        print(rec["call"], "->", rec.get("m1", {}).get("res"), rec.get("m1", {}).get("exc"))
    mine = [c for c in clauses if c.startswith(prop + ".") or c == "foreign"]
    if any(c.startswith("harness.") for c in clauses):
        print("MACHINERY-FAILURE: text builder and specification disagree:", clauses)
        return 2
    if mine:
        print("REJECT clauses=%s" % ",".join(mine))
        print("VIOLATION property=%s replay=%s" % (prop, path))
        return 1
    print("replay passes")
    return 0


# --------------------------------------------------------------------------
# self-test: the trace specification must reject corrupted recordings

def _case(segs, links, conts=()):
    return dict(prof=0,
                segs=[dict(name=n, seq=q, len=len(q), ln=0, tags=list(t)) for n, q, t in segs],
                links=[dict(n1=a, t1=b, n2=c, t2=d, ov=k, tags=list(t), eid="*") for a, b, c, d, k, t in links],
                conts=[dict(n1=a, o1=b, n2=c, o2=d, pos=p_, ov=k, tags=list(t), eid="*")
                       for a, b, c, d, p_, k, t in conts])


def _repoint(rec, slot, pred, change):
    """In observation `slot` of a recording give the first line whose record satisfies pred a
    changed copy of its pool record."""
    obs = rec[slot]["obs"]
    for ln in obs["lines"]:
        r = rec["pool"][ln["p"] - 1]
        if pred(r):
            r2 = copy.deepcopy(r)
            change(r2)
            rec["pool"].append(r2)
            ln["p"] = len(rec["pool"])
            return True
    return False


def _drop_line(obs, pred, pool):
    """Remove the first line whose record satisfies pred, with every reference to it."""
    idx = next(i for i, ln in enumerate(obs["lines"]) if pred(pool[ln["p"] - 1])) + 1
    ren = lambda j: j if j < idx else j - 1
    lines = []
    for i, ln in enumerate(obs["lines"]):
        if i + 1 == idx:
            continue
        ln = dict(ln)
        ln["fwd"] = [[k, ren(j)] for k, j in ln["fwd"] if j != idx]
        ln["br"] = [[k, [ren(j) for j in ids if j != idx]] for k, ids in ln["br"]]
        ln["br"] = [e for e in ln["br"] if e[1]]
        lines.append(ln)
    obs["lines"] = lines


def selftest():
    """Record real runs, corrupt one recorded field each, require the expected clause."""
    g14 = _case([("A", "AACGT", ()), ("B", "CCGA", ()), ("C", "GTTA", ()), ("D", "TCA", ())],
                [("A", "R", "B", "R", 2, ()), ("B", "L", "C", "L", 1, ()), ("D", "R", "C", "L", 1, ())])
    g15 = _case([("A", "AACGT", ("RC:i:10", "xx:Z:t")), ("B", "CCG", ("FC:i:9",)), ("C", "GTTA", ())],
                [("A", "R", "B", "L", 1, ("RC:i:11",)), ("A", "R", "C", "L", 1, ("KC:i:8",))],
                [("A", "+", "B", "+", 1, 3, ("FC:i:4",))])
    base14 = run_c14(dict(id="st14", ver="gfa1", case=g14, short=False))
    base15 = run_c15(dict(id="st15", ver="gfa1", case=g15, given=["cp1", "cp2"],
                          arg=dict(seg=1, k=2, policy="off", names="auto")))
    variants = [("c14 as recorded", base14, None), ("c15 as recorded", base15, None)]

    def mutant(name, base, expect, fn):
        r = copy.deepcopy(base)
        r["id"] = name
        fn(r)
        variants.append((name, r, expect))

    is_merged = lambda r: r["rt"] == "S" and "_" in r["name"]
    mutant("merged sequence reversed", base14, "C14.sequence",
           lambda r: _repoint(r, "m1", is_merged, lambda x: x.update(seq=x["seq"][::-1])))
    mutant("merged LN off by one", base14, "C14.length",
           lambda r: _repoint(r, "m1", is_merged, lambda x: x.update(ln=x["ln"] + 1)))
    is_inherited = lambda r: r["rt"] == "L" and any("_" in x["id"] for x in r["refs"])
    mutant("inherited link dropped", base14, "C14.links",
           lambda r: _drop_line(r["m1"]["obs"], is_inherited, r["pool"]))

    def flip(x):
        for ref in x["refs"]:
            if "_" in ref["id"]:
                ref["o"] = "-" if ref["o"] == "+" else "+"
    mutant("inherited link with the wrong orientation", base14, "C14.links",
           lambda r: _repoint(r, "m1", is_inherited, flip))
    mutant("untouched segment altered", base14, "C14.rest",
           lambda r: _repoint(r, "m1", lambda x: x["rt"] == "S" and x["name"] == "D",
                              lambda x: x.update(f=["TCAA"], seq=list("TCAA"))))
    mutant("a chain missing from linear_paths()", base14, "C14.chains",
           lambda r: r["lps"].update(paths=[]))
    mutant("a chain end reported on the wrong side", base14, "C14.chains",
           lambda r: r["lps"]["paths"][0][0].__setitem__(1, "L" if r["lps"]["paths"][0][0][1] == "R" else "R"))
    mutant("a component split", base14, "C14.components",
           lambda r: r["m1"]["obs"].update(cc=[[n] for n in sorted(sum(r["m1"]["obs"]["cc"], []))]))
    mutant("back-reference lost", base14, "C14.graph",
           lambda r: next(ln for ln in r["m1"]["obs"]["lines"] if ln["br"])["br"].pop())
    mutant("second merge changed the graph", base14, "C14.idempotent",
           lambda r: _drop_line(r["m2"]["obs"], is_inherited, r["pool"]))
    is_copy_edge = lambda r: r["rt"] in "LC" and any("*" in x["id"] for x in r["refs"])
    mutant("count of a copied link not divided", base15, "C15.counts",
           lambda r: _repoint(r, "m1", lambda x: is_copy_edge(x) and max(x["cnt"]) >= 0,
                              lambda x: x.update(cnt=[c + 1 if c >= 0 else c for c in x["cnt"]])))
    mutant("copied link dropped", base15, "C15.edges",
           lambda r: _drop_line(r["m1"]["obs"], lambda x: x["rt"] == "L" and is_copy_edge(x), r["pool"]))
    mutant("copied containment dropped", base15, "C15.edges",
           lambda r: _drop_line(r["m1"]["obs"], lambda x: x["rt"] == "C" and is_copy_edge(x), r["pool"]))
    mutant("copy with another sequence", base15, "C15.copies",
           lambda r: _repoint(r, "m1", lambda x: x["rt"] == "S" and "*" in x["name"],
                              lambda x: x.update(f=["AACGA"], seq=list("AACGA"))))
    mutant("copy lost an ordinary tag", base15, "C15.copies",
           lambda r: _repoint(r, "m1", lambda x: x["rt"] == "S" and "*" in x["name"],
                              lambda x: x.update(otags=[])))
    mutant("segment count not divided", base15, "C15.counts",
           lambda r: _repoint(r, "m1", lambda x: x["rt"] == "S" and x["name"] == "A",
                              lambda x: x.update(cnt=[10, -1, -1])))
    mutant("link of another segment altered", base15, "C15.rest",
           lambda r: _repoint(r, "m1", lambda x: x["rt"] == "S" and x["name"] == "C",
                              lambda x: x.update(otags=["zz:i:1"])))
    # an overlap written with `=`: the successor trimmed by the M operations only (1 instead of 2)
    g14e = _case([("A", "AACGT", ()), ("B", "CCGA", ())], [("A", "R", "B", "L", [[1, "M"], [1, "="]], ())])
    base14e = run_c14(dict(id="st14e", ver="gfa1", case=g14e, short=False))
    variants.append(("c14 with overlap 1M1= as recorded", base14e, None))
    mutant("successor trimmed by the M operations only", base14e, "C14.sequence",
           lambda r: _repoint(r, "m1", is_merged,
                              lambda x: x.update(seq=list("AACGTCGA"), f=["AACGTCGA"], ln=8, num=[8])))
    # a member read backwards whose sequence holds IUPAC codes: D and H left uncomplemented
    g14r = _case([("A", "AaDHC", ()), ("B", "dhBvM", ())], [("A", "R", "B", "R", 1, ())])
    base14r = run_c14(dict(id="st14r", ver="gfa1", case=g14r, short=False))
    variants.append(("c14 with a reversed IUPAC member as recorded", base14r, None))
    swap = dict(zip("DHdh", "HDhd"))
    mutant("D and H not complemented", base14r, "C14.sequence",
           lambda r: _repoint(r, "m1", is_merged, lambda x: x.update(seq=[swap.get(ch, ch) for ch in x["seq"]])))
    # two identical anonymous E lines on the outer end of a chain (GFA2): one of them lost
    g14i = _case([("A", "AACGT", ()), ("B", "CCGA", ()), ("C", "GTTA", ())],
                 [("A", "R", "B", "L", 1, ()), ("B", "R", "C", "L", 1, ()), ("B", "R", "C", "L", 1, ())])
    base14i = run_c14(dict(id="st14i", ver="gfa2", case=g14i, short=False))
    variants.append(("c14 with identical parallel edges as recorded", base14i, None))
    mutant("one of two identical inherited edges dropped", base14i, "C14.links",
           lambda r: _drop_line(r["m1"]["obs"], lambda x: x["rt"] == "E" and any("_" in y["id"] for y in x["refs"]),
                                r["pool"]))
    # link distribution on an end with parallel links and more links than the factor
    g15f = _case([("A", "AACGT", ()), ("B", "CCG", ()), ("C", "GTTA", ())],
                 [("A", "R", "B", "L", 1, ()), ("A", "R", "B", "L", 2, ()), ("A", "R", "C", "L", 1, ())])
    base15f = run_c15(dict(id="st15f", ver="gfa1", case=g15f, given=["cp1", "cp2"],
                           arg=dict(seg=1, k=2, policy="R", names="auto")))
    variants.append(("c15 distribution over parallel links as recorded", base15f, None))

    def drop_all(r, pred):
        while any(pred(r["pool"][ln["p"] - 1]) for ln in r["m1"]["obs"]["lines"]):
            _drop_line(r["m1"]["obs"], pred, r["pool"])
    mutant("a neighbour lost all its links to the copies", base15f, "C15.distribution",
           lambda r: drop_all(r, lambda x: x["rt"] == "L" and any(y["id"] == "C" for y in x["refs"])))
    # placeholders (virtual links of a path whose steps no L line joins), GFA1 at validation level 0
    g15v = dict(_case([("A", "AACGT", ()), ("B", "CCG", ()), ("C", "GTTA", ())], [("A", "R", "B", "L", 1, ())]),
                paths=[["p1", ["A+", "B+", "C+"], ["*"]]])
    base15v = run_c15(dict(id="st15v", ver="gfa1", case=g15v, given=["cp1", "cp2"],
                           arg=dict(seg=2, k=2, policy="off", names="auto")))
    base15w = run_c15(dict(id="st15w", ver="gfa1", case=g15v, given=["cp1", "cp2"],
                           arg=dict(seg=1, k=2, policy="off", names="auto")))
    variants.append(("c15 next to a placeholder link as recorded", base15v, None))
    variants.append(("c15 away from a placeholder link as recorded", base15w, None))

    def make_real(r):
        for ln in r["m1"]["obs"]["lines"]:
            x = r["pool"][ln["p"] - 1]
            if ln["virt"] == 1 and x["rt"] == "L" and any("*" in y["id"] for y in x["refs"]):
                ln["virt"] = 0
                return
        raise MachineryError("selftest: no placeholder link on the copy")
    mutant("placeholder link of the copy became a real link", base15v, "C15.edges", make_real)

    def lose_placeholder(r):
        obs = r["m1"]["obs"]
        idx = next(i for i, ln in enumerate(obs["lines"]) if ln["virt"] == 1)
        mark = copy.deepcopy(r["pool"][obs["lines"][idx]["p"] - 1])
        mark["otags"] = ["zz:Z:selftest"]
        r["pool"].append(mark)
        obs["lines"][idx]["p"] = len(r["pool"])
        _drop_line(obs, lambda x: x.get("otags") == ["zz:Z:selftest"], r["pool"])
    mutant("placeholder link of the rest lost", base15w, "C15.rest", lose_placeholder)
    # dependants of a chain member: one of two containments survives the merge, pointing nowhere
    g14d = _case([("A", "AACGT", ()), ("B", "CCGA", ()), ("X", "AC", ())], [("A", "R", "B", "L", 1, ())],
                 [("B", "+", "X", "+", 1, 2, ()), ("B", "+", "X", "-", 2, -1, ())])
    base14d = run_c14(dict(id="st14d", ver="gfa1", case=g14d, short=False))
    variants.append(("c14 with containments on a chain member as recorded", base14d, None))

    def survivor(r):
        ln = next(ln for ln in r["pre"]["lines"] if r["pool"][ln["p"] - 1]["rt"] == "C")
        r["m1"]["obs"]["lines"].append(dict(p=ln["p"], virt=0, own=1, fwd=[[k, 0] for k, _ in ln["fwd"]], br=[]))
    mutant("a dependant of a removed member survives", base14d, "C14.graph", survivor)
    # an edge of the segment with itself: its copy runs from the copy to the original
    g15s = _case([("A", "AACGT", ()), ("B", "CCG", ())], [("A", "R", "A", "L", 1, ()), ("A", "R", "B", "L", 1, ())])
    base15s = run_c15(dict(id="st15s", ver="gfa1", case=g15s, given=["cp1", "cp2"],
                           arg=dict(seg=1, k=2, policy="off", names="auto")))
    variants.append(("c15 with a self-loop as recorded", base15s, None))

    def cross(x):
        x["refs"][1]["id"] = "A"
    mutant("copy of a self-loop runs to the original", base15s, "C15.edges",
           lambda r: _repoint(r, "m1", lambda x: x["rt"] == "L" and all("*" in y["id"] for y in x["refs"]), cross))
    # a placeholder (mentioned, undefined segment) carries the name the copy received
    g15n = _case([("A", "AACGT", ()), ("B", "CCG", ()), ("A*2", "GTTA", ())], [("B", "R", "A*2", "L", 1, ())])
    g15n["segs"][2]["sline"] = 0
    base15n = run_c15(dict(id="st15n", ver="gfa1", case=g15n, given=["cp1", "cp2"],
                           arg=dict(seg=1, k=2, policy="off", names="auto")))
    variants.append(("c15 next to a placeholder named like a copy as recorded", base15n, None))

    def same_name(r):
        new = [x["name"] for x in r["pool"] if x["rt"] == "S" and x["name"] not in ("A", "B", "A*2")]
        if len(new) != 1:
            raise MachineryError("selftest: copy name not found: %s" % new)
        idx = next(i for i, x in enumerate(r["pool"]) if x["rt"] == "S" and x["name"] == "A*2")
        x = copy.deepcopy(r["pool"][idx])
        x["name"] = new[0]
        r["pool"].append(x)
        for slot in (r["pre"], r["m1"]["obs"]):
            for ln in slot["lines"]:
                if ln["p"] == idx + 1:
                    ln["p"] = len(r["pool"])
    mutant("the copy took the name of a placeholder", base15n, "C15.names", same_name)
    # GFA2: an internal overlap of the segment (not copied, counts not divided); tags of other datatypes
    g15i = dict(_case([("A", "AACGT", ("ja:J:[1, 2, 3]", "je:J:[]", "ff:f:3")), ("B", "CCG", ()), ("C", "GTTA", ())],
                      [("A", "R", "B", "L", 1, ("jl:J:[4, 5]",))]),
                internals=[["E", "*", "A+", "B+", "1", "3", "1", "2", "2M", "RC:i:20"]])
    base15i = run_c15(dict(id="st15i", ver="gfa2", case=g15i, given=["cp1", "cp2"], internals=True,
                           arg=dict(seg=1, k=2, policy="off", names="auto")))
    variants.append(("c15 with an internal overlap and J tags as recorded", base15i, None))
    mutant("count of an internal overlap divided", base15i, "C15.rest",
           lambda r: _repoint(r, "m1", lambda x: x["rt"] == "E" and x["cnt"][0] == 20, lambda x: x.update(cnt=[10, -1, -1])))
    mutant("J array of the copy written as B array", base15i, "C15.copies",
           lambda r: _repoint(r, "m1", lambda x: x["rt"] == "S" and "*" in x["name"],
                              lambda x: x.update(otags=["ja:B:C,1,2,3" if t.startswith("ja:") else t for t in x["otags"]])))
    mutant("J array of a copied edge written as B array", base15i, "C15.edges",
           lambda r: _repoint(r, "m1", lambda x: x["rt"] == "E" and any("*" in y["id"] for y in x["refs"]),
                              lambda x: x.update(otags=["jl:B:C,4,5"])))
    recs = [r for _, r, _ in variants]
    for r in recs:
        if "broken" in r:
            raise MachineryError("selftest recording broken: %s" % r.get("broken"))
    rej, _ = validate(recs, "graphops-selftest")
    bad = 0
    for name, r, expect in variants:
        got = rej.get(r["id"], [])
        ok = (not got) if expect is None else (expect in got)
        print("selftest graphops: %-45s expect %-16s got %s %s" % (name, expect or "accepted", got or "accepted",
                                                                    "ok" if ok else "FAILED"))
        bad += 0 if ok else 1
    return 1 if bad else 0


PROPS = {"C14": (check_c14, "exploration"), "C15": (check_c15, "exploration")}
