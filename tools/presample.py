#!/venv/bin/python
"""Large-sample run of every history generator of the core family on the current tree (not a registered
check): the thorough tiers draw ~20x more histories than the quick tiers; this runs a sample of that size
and lists every rejection, so that false alarms are seen before a thorough tier reports them.
Usage: VERIF_WORK=/tmp/presample tools/presample.py   (expected on the unchanged tree: 0 rejections)"""
import sys, collections
sys.path.insert(0, "/verif")
from harness import core

def main():
    jobs = []
    for cat in ("gfa1", "gfa2"):
        jobs += core.random_jobs(cat, 800, 14, 101)
        jobs += core.doc_jobs(cat, 800, 7, 102)
        jobs += core.fuzz_jobs(700, 111, cat)
        jobs += core.edit_jobs(cat, 1500, 9, 121)
        jobs += core.clone_jobs(cat, 700, 5, 141)
        jobs += core.rename_jobs(cat, 700, 151)
        jobs += core.dup_jobs(cat, 161)
        for vl in (0, 2, 3):
            jobs += core.doc_jobs(cat, 400, 7, 103 + vl, vlevel=vl, kind="docv%d" % vl)
        jobs += core.edit_jobs(cat, 300, 6, 122, vlevel=3, kind="editv3") + core.edit_jobs(cat, 300, 6, 123, vlevel=0, kind="editv0")
        for vl in (1, 2, 3):
            jobs += core.hdr_jobs(cat, 300, 170 + vl, vlevel=vl)
    for small in ("gfa1s", "perml", "permp", "gfa2s", "permg", "ids1", "ids2", "conv1"):
        jobs += core.rename_jobs(small, 500, 155, kind="renall" + small)
    jobs += core.doc_jobs("conv1", 1000, 6, 153, kind="convdoc")
    for idc in ("ids1", "ids2"):
        jobs += core.doc_jobs(idc, 2000, 5, 281, kind="doc" + idc)
        jobs += core.random_jobs(idc, 1000, 10, 282, kind="rand" + idc)
    for cat in ("topo1", "topo2"):
        jobs += core.edit_jobs(cat, 1000, 9, 221, complete=True)
    print(len(jobs), "histories")
    r = core.replay_validate(jobs, "presample")
    print(len(r["rejects"]), "rejections; traces left open / events after:", r["unmodelled"],
          collections.Counter(tuple(x[2]) for x in r["rejects"]).most_common(8))
    by, seen = r["by_id"], set()
    for tid, ev, clauses, phase in r["rejects"]:
        t = by[tid]
        if ev - 1 >= len(t["src"]):
            continue
        o = t["src"][ev - 1]
        key = (o["k"], tuple(clauses))
        if key in seen:
            continue
        seen.add(key)
        print(tid, ev, clauses, phase, t["cfg"],
              [(x["k"], x.get("text") or x.get("texts") or (x["id"], x["id2"])) for x in t["src"][max(0, ev - 5):ev]],
              t["ev"][ev - 1]["res"], t["ev"][ev - 1]["exc"])
    return 1 if r["rejects"] else 0

if __name__ == "__main__":
    sys.exit(main())
