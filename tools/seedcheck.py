#!/venv/bin/python
"""Evaluate one seeded change: tools/seedcheck.py <seed-out-dir> <k> <property> [more properties...]
Applies change<k>.diff to a scratch copy of /repo, confirms (a) demo passes on /repo and fails on the
copy, (b) the repository's test-suite still passes on the copy, then runs ./check <prop> --tier quick
against the copy (VERIF_REPO) with separate work/evidence directories.  With --keep NAME the confirmed
change is stored under /verif/seeded/NAME/."""
import json, os, shutil, subprocess, sys, tempfile

def sh(cmd, **kw):
    return subprocess.run(cmd, shell=True, stdout=subprocess.PIPE, stderr=subprocess.STDOUT, text=True, **kw)

def main():
    args = [a for a in sys.argv[1:] if not a.startswith("--")]
    keep = None
    tier = "quick"
    for i, a in enumerate(sys.argv):
        if a == "--keep":
            keep = sys.argv[i + 1]; args.remove(keep)
        if a == "--tier":
            tier = sys.argv[i + 1]; args.remove(tier)
    d, k, props = args[0], args[1], args[2:]
    diff = os.path.join(d, "change%s.diff" % k)
    demo = os.path.join(d, "demo%s.py" % k)
    scratch = tempfile.mkdtemp(prefix="seedrun-", dir="/tmp")
    repo = os.path.join(scratch, "repo")
    res = {"diff": diff, "props": {}}
    try:
        sh("cp -r /repo %s" % repo)
        r = sh("git -C %s apply %s" % (repo, diff))
        if r.returncode != 0:
            r = sh("cd %s && patch -p1 < %s" % (repo, diff))
        res["applied"] = r.returncode == 0
        if not res["applied"]:
            print("cannot apply", r.stdout); return 2
        a = sh("/venv/bin/python %s /repo" % demo, timeout=300)
        b = sh("/venv/bin/python %s %s" % (demo, repo), timeout=300)
        res["demo_unchanged"] = a.returncode
        res["demo_changed"] = b.returncode
        t = sh("cd %s && /venv/bin/python -m pytest -q -p no:cacheprovider 2>&1 | tail -1" % repo, timeout=900)
        res["tests"] = t.stdout.strip()
        env = dict(os.environ, VERIF_REPO=repo, VERIF_WORK=os.path.join(scratch, "work"),
                   VERIF_EVIDENCE_DIR=os.path.join(scratch, "evidence"))
        for p in props:
            c = subprocess.run(["/verif/check", p, "--tier", tier], cwd="/verif", env=env, stdout=subprocess.PIPE,
                               stderr=subprocess.STDOUT, text=True, timeout=3600)
            lines = c.stdout.strip().splitlines()
            res["props"][p] = {"exit": c.returncode, "tail": lines[-1][:300] if lines else "",
                               "violations": sum(1 for x in lines if x.startswith("VIOLATION"))}
            ev = os.path.join(scratch, "evidence", p + ".json")
            if os.path.exists(ev):
                e = json.load(open(ev))
                res["props"][p]["others"] = e["coverage"].get("other_property_rejections")
                rp = os.path.join(scratch, "evidence", "replays", p + "-0.json")
                if os.path.exists(rp):
                    v = json.load(open(rp))
                    res["props"][p]["first"] = {kk: v.get(kk) for kk in ("clauses", "what", "input")}
        print(json.dumps(res, indent=1))
        if keep:
            dst = os.path.join("/verif/seeded", keep)
            os.makedirs(dst, exist_ok=True)
            shutil.copy(diff, os.path.join(dst, "patch.diff"))
            shutil.copy(demo, os.path.join(dst, "demo.py"))
            meta = {}
            mp = os.path.join(d, "meta%s.json" % k)
            if os.path.exists(mp):
                try:
                    meta = json.load(open(mp))
                except Exception:
                    meta = {"raw": open(mp).read()}
            meta["confirmed"] = {"demo_on_unchanged_tree": res["demo_unchanged"], "demo_on_changed_tree": res["demo_changed"],
                                 "test_suite_on_changed_tree": res["tests"],
                                 "checks": res["props"],
                                 "ran": "tools/seedcheck.py (scratch copy of /repo, VERIF_REPO), tier " + tier}
            json.dump(meta, open(os.path.join(dst, "meta.json"), "w"), indent=1)
        return 0
    finally:
        shutil.rmtree(scratch, ignore_errors=True)

if __name__ == "__main__":
    sys.exit(main())
