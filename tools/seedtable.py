#!/usr/bin/env python3
"""Regenerates seeded/README.md from seeded/*/meta.json."""
import glob, json, os
rows = []
for d in sorted(glob.glob("/verif/seeded/*/")):
    name = os.path.basename(d.rstrip("/"))
    m = json.load(open(d + "meta.json"))
    c = m.get("confirmed", {})
    chk = c.get("checks", {})
    caught = [p for p, v in chk.items() if v.get("exit") == 1]
    cl = [",".join((v.get("first") or {}).get("clauses") or []) for p, v in chk.items() if v.get("exit") == 1]
    esc = lambda s: (s or "").replace("\n", " ").replace("|", "/")
    rows.append("| %s | %s | %s | %s | %s | %s |" % (
        name, esc(", ".join(m.get("files", []) if isinstance(m.get("files"), list) else [str(m.get("files"))])),
        esc(m.get("summary"))[:260], esc(m.get("needs"))[:260],
        "demo unchanged=%s changed=%s; tests: %s" % (c.get("demo_on_unchanged_tree"), c.get("demo_on_changed_tree"), esc(c.get("test_suite_on_changed_tree"))[:24]),
        ("**caught** by ./check %s --tier quick: %s" % (caught[0], cl[0])) if caught else "NOT caught"))
with open("/verif/seeded/README.md", "w") as f:
    f.write("# Seeded changes\n\nRealistic changes to gfapy written by independent sub-agents that were given only the text of one "
            "property and a scratch worktree (nothing from /verif). Each keeps the 365 tests green and breaks the property; "
            "`demo.py <path of a gfapy checkout>` fails with the change and passes without. Evaluated with "
            "`tools/seedcheck.py` (scratch copy of /repo + VERIF_REPO). Names: `<property>-<k>`; k = 3, 4 are the second round "
            "(other mechanisms than the first).\n\n"
            "| id | files | change | needs | confirmed | check |\n|---|---|---|---|---|---|\n" + "\n".join(rows) + "\n")
print(len(rows), "rows")
